(* Proofs about Model/Bip32Data.v and Model/Bip32Ser.v (C05). *)
From Coq Require Import NArith ZArith Arith List Lia Bool.
From BU Require Import Base.Exn Base.Radix Base.Bytes Gen.SerbipConsts Model.Base58 Model.Bip32Data Model.Bip32Ser.
From BU Require Import Lemmas.Base58 Lemmas.SerbipAux Lemmas.SerbipConstsOk.
Import ListNotations.
Open Scope N_scope.

(* ---------------------------------------------------------------- containers *)

Lemma mk_depth_N d : mk_depth (Z.of_N d) = Ok d.
Proof.
  unfold mk_depth. destruct (Z.ltb_spec (Z.of_N d) 0); [lia|]. rewrite N2Z.id. reflexivity.
Qed.

Lemma mk_depth_neg d : (d < 0)%Z -> mk_depth d = Err ValueError.
Proof. intros H. unfold mk_depth. destruct (Z.ltb_spec d 0); [reflexivity|lia]. Qed.

Lemma depth_to_bytes_ok d : d < 256 -> depth_to_bytes d = Ok [d].
Proof. intros H. unfold depth_to_bytes. rewrite c_depth_len. apply be_fixed_1, H. Qed.

Lemma depth_to_bytes_overflow d : 256 <= d -> depth_to_bytes d = Err OverflowError.
Proof. intros H. unfold depth_to_bytes. rewrite c_depth_len. apply int_to_be_fixed_overflow. exact H. Qed.

Lemma mk_index_N i : i <= bip32_index_max -> mk_index (Z.of_N i) = Ok i.
Proof.
  intros H. unfold mk_index. destruct (Z.ltb_spec (Z.of_N i) 0); [lia|].
  destruct (Z.ltb_spec (Z.of_N bip32_index_max) (Z.of_N i)); [lia|]. simpl. rewrite N2Z.id. reflexivity.
Qed.

Lemma mk_index_range i : (exists n, mk_index i = Ok n) <-> (0 <= i <= 4294967295)%Z.
Proof.
  unfold mk_index. rewrite c_index_max.
  destruct (Z.ltb_spec i 0); destruct (Z.ltb_spec (Z.of_N 4294967295) i); simpl; split;
    try (intros [n E]; discriminate); try lia; eauto.
Qed.

Lemma index_to_bytes_ok i : i <= bip32_index_max -> index_to_bytes i = Ok (be32 i).
Proof.
  rewrite c_index_max. intros H. unfold index_to_bytes. rewrite c_index_len.
  apply int_to_be_fixed_be32. lia.
Qed.

Lemma index_from_bytes_ok b : bytes_ok b -> length b = 4%nat -> index_from_bytes b = Ok (be_to_int b).
Proof.
  intros Hb L. unfold index_from_bytes. apply mk_index_N. rewrite c_index_max.
  pose proof (be_to_int_lt b Hb) as B. rewrite L in B. change (256 ^ N.of_nat 4) with 4294967296 in B. lia.
Qed.

Lemma index_bytes_roundtrip b : bytes_ok b -> length b = 4%nat -> index_to_bytes (be_to_int b) = Ok b.
Proof.
  intros Hb L. unfold index_to_bytes. rewrite c_index_len, <- L. apply be_fixed_roundtrip, Hb.
Qed.

Lemma mk_chain_code_ok b : length b = 32%nat -> mk_chain_code b = Ok b.
Proof. intros L. unfold mk_chain_code. rewrite c_cc_len, L. reflexivity. Qed.

Lemma mk_chain_code_iff b : (exists c, mk_chain_code b = Ok c) <-> length b = 32%nat.
Proof.
  unfold mk_chain_code. rewrite c_cc_len. destruct (Nat.eqb_spec (length b) 32); split; eauto.
  - intros [c E]; discriminate.
  - contradiction.
Qed.

Lemma mk_fprint_ok b : length b = 4%nat -> mk_fprint b = Ok b.
Proof.
  intros L. unfold mk_fprint. rewrite c_fprint_len.
  destruct (Nat.ltb_spec (length b) 4); [lia|]. rewrite <- L, firstn_all. reflexivity.
Qed.

(* ---------------------------------------------------------------- payload layout *)

Lemma payload_split ser :
  ser = firstn 4 ser ++ slice 4 5 ser ++ slice 5 9 ser ++ slice 9 13 ser ++ slice 13 45 ser ++ skipn 45 ser.
Proof.
  rewrite <- slice_0.
  transitivity (slice 0 4 ser ++ skipn 4 ser); [apply (slice_split 0 4 ser); lia|]. f_equal.
  transitivity (slice 4 5 ser ++ skipn 5 ser); [apply slice_split; lia|]. f_equal.
  transitivity (slice 5 9 ser ++ skipn 9 ser); [apply slice_split; lia|]. f_equal.
  transitivity (slice 9 13 ser ++ skipn 13 ser); [apply slice_split; lia|]. f_equal.
  apply slice_split; lia.
Qed.

Lemma fields_unique a d f i c k ser :
  ser = a ++ d ++ f ++ i ++ c ++ k ->
  length a = 4%nat -> length d = 1%nat -> length f = 4%nat -> length i = 4%nat -> length c = 32%nat ->
  firstn 4 ser = a /\ slice 4 5 ser = d /\ slice 5 9 ser = f /\ slice 9 13 ser = i /\
  slice 13 45 ser = c /\ skipn 45 ser = k.
Proof.
  intros E La Ld Lf Li Lc.
  assert (L : length ser = (45 + length k)%nat) by (subst ser; rewrite !app_length; lia).
  pose proof (payload_split ser) as S. rewrite E in S at 1.
  apply app_inj_len in S; [destruct S as [S1 S]|rewrite firstn_length; lia].
  apply app_inj_len in S; [destruct S as [S2 S]|rewrite slice_length; lia].
  apply app_inj_len in S; [destruct S as [S3 S]|rewrite slice_length; lia].
  apply app_inj_len in S; [destruct S as [S4 S]|rewrite slice_length; lia].
  apply app_inj_len in S; [destruct S as [S5 S]|rewrite slice_length; lia].
  repeat split; symmetry; assumption.
Qed.

Section Bip32SerBasic.
  Set Default Proof Using "Type".
  Variable alph : list N.
  Variable radix : N.
  Variable cklen : nat.
  Variable sha256 : list N -> list N.
  Variable priv_ok : list N -> bool.
  Variable pub_parse : list N -> option (list N).


  Notation check_encode := (check_encode alph radix cklen sha256).
  Notation serialize := (serialize alph radix cklen sha256).
  Notation ser_priv := (ser_priv alph radix cklen sha256).
  Notation ser_pub := (ser_pub alph radix cklen sha256).

  (* well-formed key data: what the container constructors guarantee, plus the one-byte depth *)
  Definition kd_ok (kd : key_data) : Prop :=
    kd_depth kd < 256 /\ kd_index kd <= bip32_index_max /\
    length (kd_cc kd) = 32%nat /\ bytes_ok (kd_cc kd) /\ length (kd_fp kd) = 4%nat /\ bytes_ok (kd_fp kd).
  (* master-key metadata sanity demanded by FromExtendedKey *)
  Definition kd_master_consistent (kd : key_data) : Prop :=
    kd_depth kd = 0 -> kd_fp kd = bip32_fprint_master /\ kd_index kd = 0.
  Definition ver_ok (v : key_net_ver) : Prop :=
    length (fst v) = 4%nat /\ length (snd v) = 4%nat /\ bytes_ok (fst v) /\ bytes_ok (snd v) /\ fst v <> snd v.

  (* the standard's byte layout *)
  Definition layout (ver : list N) (kd : key_data) (key : list N) : list N :=
    ver ++ [kd_depth kd] ++ kd_fp kd ++ be32 (kd_index kd) ++ kd_cc kd ++ key.

  Lemma ser_payload_layout key kd ver : kd_ok kd -> ser_payload key kd ver = Ok (layout ver kd key).
  Proof.
    intros (Hd & Hi & _). unfold ser_payload. rewrite depth_to_bytes_ok, index_to_bytes_ok by assumption.
    reflexivity.
  Qed.

  Lemma layout_length ver kd key : length ver = 4%nat -> kd_ok kd ->
    length (layout ver kd key) = (45 + length key)%nat.
  Proof.
    intros Lv (_ & _ & Lc & _ & Lf & _). unfold layout. rewrite !app_length, Lv, Lc, Lf. simpl. lia.
  Qed.

  Lemma layout_bytes_ok ver kd key : bytes_ok ver -> kd_ok kd -> bytes_ok key -> bytes_ok (layout ver kd key).
  Proof.
    intros Hv (Hd & Hi & _ & Hc & _ & Hf) Hk. unfold layout.
    rewrite c_index_max in Hi. destruct (be32_ok (kd_index kd)) as [Hb _]; [lia|].
    repeat (apply bytes_ok_app; split); auto; repeat constructor; auto.
  Qed.

  (* ser_layout: the string is Base58Check of version || depth || fingerprint || index(be32) || chain code || key *)
  Theorem ser_priv_layout v kd raw : kd_ok kd ->
    ser_priv v kd raw = Ok (check_encode (layout (snd v) kd (0 :: raw))).
  Proof.
    intros H. unfold Bip32Ser.ser_priv, Bip32Ser.serialize. rewrite c_priv_pad.
    rewrite (ser_payload_layout _ _ _ H). reflexivity.
  Qed.

  Theorem ser_pub_layout v kd pk : kd_ok kd ->
    ser_pub v kd pk = Ok (check_encode (layout (fst v) kd pk)).
  Proof.
    intros H. unfold Bip32Ser.ser_pub, Bip32Ser.serialize.
    rewrite (ser_payload_layout _ _ _ H). reflexivity.
  Qed.

  Theorem ser_depth_overflow key kd ver : 256 <= kd_depth kd ->
    serialize key kd ver = Err OverflowError.
  Proof.
    intros H. unfold Bip32Ser.serialize, ser_payload. rewrite depth_to_bytes_overflow by assumption. reflexivity.
  Qed.

  (* ---- parsing a well-formed payload *)
  Lemma get_parts_layout ver kd key is_public :
    length ver = 4%nat -> kd_ok kd ->
    get_parts (layout ver kd key) is_public =
      if is_public then Ok (key, kd)
      else k0 <- of_option (nth_error key 0) IndexError ;;
           if negb (k0 =? 0) then Err (LibError Bip32KeyError) else Ok (skipn 1 key, kd).
  Proof.
    intros Lv Hkd. pose proof Hkd as (Hd & Hi & Lc & Hc & Lf & Hf).
    assert (Hi' : kd_index kd < 4294967296) by (rewrite c_index_max in Hi; lia).
    destruct (be32_ok _ Hi') as [Bi1 Bi2].
    destruct (fields_unique ver [kd_depth kd] (kd_fp kd) (be32 (kd_index kd)) (kd_cc kd) key _ eq_refl)
      as (F1 & F2 & F3 & F4 & F5 & F6); auto.
    unfold get_parts.
    change depth_idx with 4%nat. change fprint_idx with 5%nat. change key_index_idx with 9%nat.
    change chain_code_idx with 13%nat. change key_idx with 45%nat.
    fold (layout ver kd key) in *.
    assert (N4 : nth_error (layout ver kd key) 4 = Some (kd_depth kd)).
    { unfold layout. rewrite nth_error_app2 by lia. rewrite Lv. reflexivity. }
    rewrite N4. cbn [of_option bind Ok]. rewrite mk_depth_N. cbn [bind Ok].
    rewrite F3, F4, F5, F6.
    rewrite index_from_bytes_ok by auto. rewrite Bi2. cbn [bind Ok].
    rewrite mk_chain_code_ok by auto. cbn [bind Ok]. rewrite mk_fprint_ok by auto. cbn [bind Ok].
    rewrite c_priv_pad_expected. destruct kd; reflexivity.
  Qed.

  Lemma get_if_public_pub v p : ver_ok v -> get_if_public (fst v ++ p) v = Ok true.
  Proof.
    intros (L1 & _). unfold get_if_public. rewrite c_ver_len, firstn_app_exact by auto.
    unfold ver_pub. rewrite list_eqb_refl. reflexivity.
  Qed.
  Lemma get_if_public_priv v p : ver_ok v -> get_if_public (snd v ++ p) v = Ok false.
  Proof.
    intros (_ & L2 & _ & _ & Hne). unfold get_if_public. rewrite c_ver_len, firstn_app_exact by auto.
    unfold ver_pub, ver_priv. rewrite list_eqb_false by congruence. rewrite list_eqb_refl. reflexivity.
  Qed.

  Lemma get_parts_long ser is_public : bytes_ok ser -> (78 <= length ser)%nat ->
    exists d, nth_error ser 4 = Some d /\ d < 256 /\
    let kd := mk_kd d (be_to_int (slice 9 13 ser)) (slice 13 45 ser) (slice 5 9 ser) in
    kd_ok kd /\
    get_parts ser is_public =
      if is_public then Ok (skipn 45 ser, kd)
      else k0 <- of_option (nth_error ser 45) IndexError ;;
           if negb (k0 =? 0) then Err (LibError Bip32KeyError) else Ok (skipn 46 ser, kd).
  Proof.
    intros Hb L.
    destruct (nth_error ser 4) as [d|] eqn:N4; [|apply nth_error_None in N4; lia].
    exists d. split; [reflexivity|].
    assert (Hd : d < 256).
    { apply nth_error_In in N4. unfold bytes_ok in Hb. rewrite Forall_forall in Hb. auto. }
    split; [exact Hd|].
    assert (B9 : bytes_ok (slice 9 13 ser)) by (apply bytes_ok_slice; auto).
    assert (L9 : length (slice 9 13 ser) = 4%nat) by (rewrite slice_length; lia).
    assert (L13 : length (slice 13 45 ser) = 32%nat) by (rewrite slice_length; lia).
    assert (L5 : length (slice 5 9 ser) = 4%nat) by (rewrite slice_length; lia).
    split.
    - unfold kd_ok. cbn [kd_depth kd_index kd_cc kd_fp]. repeat split; auto using bytes_ok_slice.
      rewrite c_index_max. pose proof (be_to_int_lt _ B9) as B. rewrite L9 in B.
      change (256 ^ N.of_nat 4) with 4294967296 in B. lia.
    - unfold get_parts.
      change depth_idx with 4%nat. change fprint_idx with 5%nat. change key_index_idx with 9%nat.
      change chain_code_idx with 13%nat. change key_idx with 45%nat.
      rewrite N4. cbn [of_option bind Ok]. rewrite mk_depth_N. cbn [bind Ok].
      rewrite index_from_bytes_ok by auto. cbn [bind Ok].
      rewrite mk_chain_code_ok by auto. cbn [bind Ok]. rewrite mk_fprint_ok by auto. cbn [bind Ok].
      rewrite nth_error_skipn0, skipn_add, c_priv_pad_expected. reflexivity.
  Qed.

  Lemma nat_mem_priv_lens n : nat_mem n bip32_ser_priv_lens = true -> n = 78%nat \/ n = 110%nat.
  Proof.
    rewrite c_ser_priv_lens. cbn [nat_mem]. rewrite !orb_true_iff, !Nat.eqb_eq. intros [H|[H|H]]; auto; discriminate.
  Qed.

End Bip32SerBasic.

Section Bip32SerProofs.
  Set Default Proof Using "All".
  Variable alph : list N.
  Variable radix : N.
  Variable cklen : nat.
  Variable sha256 : list N -> list N.
  Variable priv_ok : list N -> bool.
  Variable pub_parse : list N -> option (list N).

  Hypothesis alph_nodup : NoDup alph.
  Hypothesis alph_len : length alph = N.to_nat radix.
  Hypothesis radix_ge2 : 2 <= radix.
  Hypothesis sha_len : forall x, length (sha256 x) = 32%nat.
  Hypothesis sha_ok : forall x, bytes_ok (sha256 x).
  Hypothesis cklen_le : (cklen <= 32)%nat.

  Notation check_encode := (check_encode alph radix cklen sha256).
  Notation check_decode := (check_decode alph radix cklen sha256).
  Notation serialize := (serialize alph radix cklen sha256).
  Notation ser_priv := (ser_priv alph radix cklen sha256).
  Notation ser_pub := (ser_pub alph radix cklen sha256).
  Notation deserialize := (deserialize alph radix cklen sha256).
  Notation from_extended := (from_extended alph radix cklen sha256 priv_ok pub_parse).
  Notation to_extended := (to_extended alph radix cklen sha256).
  Notation construct := (construct priv_ok pub_parse).

  Let cd_enc := check_decode_encode alph radix cklen sha256 alph_nodup alph_len radix_ge2 sha_len sha_ok cklen_le.
  Let cd_iff := check_decode_ok_iff alph radix cklen sha256.
  Let cd_err := check_decode_err alph radix cklen sha256.
  Let ce_dec := check_encode_decode alph radix cklen sha256 alph_nodup alph_len radix_ge2.

  (* ---- deser_ser : parsing a serialisation reconstructs the object *)
  Theorem deser_ser_priv v kd raw s :
    ver_ok v -> kd_ok kd -> kd_master_consistent kd -> bytes_ok raw ->
    (length raw = 32%nat \/ length raw = 64%nat) -> priv_ok raw = true ->
    ser_priv v kd raw = Ok s ->
    from_extended s v = Ok (mk_obj false raw kd).
  Proof.
    intros Hv Hkd Hm Hraw Lraw Hp E. rewrite ser_priv_layout in E by auto. inversion E; subst s; clear E.
    pose proof Hv as (L1 & L2 & B1 & B2 & Hne).
    unfold Bip32Ser.from_extended, Bip32Ser.deserialize.
    rewrite cd_enc by (apply layout_bytes_ok; auto; constructor; auto; lia).
    cbn [bind Ok]. unfold layout at 1. rewrite get_if_public_priv by auto. cbn [bind Ok].
    fold (layout (snd v) kd (0 :: raw)).
    rewrite layout_length by auto. cbn [length andb negb].
    rewrite c_ser_priv_lens.
    assert (M : nat_mem (45 + S (length raw)) [78%nat; 110%nat] = true) by (destruct Lraw as [-> | ->]; reflexivity).
    rewrite M. cbn [negb]. rewrite get_parts_layout by auto.
    cbn [nth_error of_option bind Ok N.eqb negb skipn fst snd].
    destruct Hkd as (Hd & Hi & Lc & Hc & Lf & Hf).
    destruct (N.eqb_spec (kd_depth kd) 0) as [D0|D0].
    - destruct (Hm D0) as [Ef Ei]. rewrite Ef, Ei. unfold fprint_is_master. rewrite list_eqb_refl.
      cbn [negb andb N.eqb]. unfold Bip32Ser.construct. rewrite Hp. reflexivity.
    - cbn [andb]. unfold Bip32Ser.construct. rewrite Hp. reflexivity.
  Qed.

  Theorem deser_ser_pub v kd pk s :
    ver_ok v -> kd_ok kd -> kd_master_consistent kd -> bytes_ok pk ->
    length pk = 33%nat -> pub_parse pk = Some pk ->
    ser_pub v kd pk = Ok s ->
    from_extended s v = Ok (mk_obj true pk kd).
  Proof.
    intros Hv Hkd Hm Hpk Lpk Hp E. rewrite ser_pub_layout in E by auto. inversion E; subst s; clear E.
    pose proof Hv as (L1 & L2 & B1 & B2 & Hne).
    unfold Bip32Ser.from_extended, Bip32Ser.deserialize.
    rewrite cd_enc by (apply layout_bytes_ok; auto).
    cbn [bind Ok]. unfold layout at 1. rewrite get_if_public_pub by auto. cbn [bind Ok].
    fold (layout (fst v) kd pk).
    rewrite layout_length by auto. rewrite Lpk, c_ser_pub_len. cbn [Nat.add Nat.eqb negb andb].
    rewrite get_parts_layout by auto. cbn [bind Ok fst snd].
    destruct Hkd as (Hd & Hi & Lc & Hc & Lf & Hf).
    destruct (N.eqb_spec (kd_depth kd) 0) as [D0|D0].
    - destruct (Hm D0) as [Ef Ei]. rewrite Ef, Ei. unfold fprint_is_master. rewrite list_eqb_refl.
      cbn [negb andb N.eqb]. unfold Bip32Ser.construct. rewrite Hp. reflexivity.
    - cbn [andb]. unfold Bip32Ser.construct. rewrite Hp. reflexivity.
  Qed.

  (* a depth-0 key carrying a non-zero fingerprint or index can be serialised but never parsed back *)
  Theorem deser_ser_master_inconsistent v kd key s (is_public : bool) :
    ver_ok v -> kd_ok kd -> bytes_ok key -> kd_depth kd = 0 ->
    (kd_fp kd <> bip32_fprint_master \/ kd_index kd <> 0) ->
    (if is_public then ser_pub v kd key else ser_priv v kd key) = Ok s ->
    from_extended s v = Err (LibError Bip32KeyError).
  Proof.
    intros Hv Hkd Hkey D0 Hbad E. pose proof Hv as (L1 & L2 & B1 & B2 & Hne).
    assert (Hfin : forall k p, (if (kd_depth kd =? 0) && negb (fprint_is_master (kd_fp kd))
                  then Err (LibError Bip32KeyError)
                  else if (kd_depth kd =? 0) && negb (kd_index kd =? 0) then Err (LibError Bip32KeyError)
                  else construct p k kd) = @Err bip32_obj (LibError Bip32KeyError)).
    { intros k p. rewrite D0. cbn [N.eqb andb]. destruct Hbad as [Hf|Hi].
      - unfold fprint_is_master. rewrite list_eqb_false by auto. reflexivity.
      - destruct (fprint_is_master (kd_fp kd)); [|reflexivity]. cbn [negb].
        destruct (N.eqb_spec (kd_index kd) 0); [contradiction|reflexivity]. }
    destruct is_public.
    - rewrite ser_pub_layout in E by auto. inversion E; subst s; clear E.
      unfold Bip32Ser.from_extended, Bip32Ser.deserialize.
      rewrite cd_enc by (apply layout_bytes_ok; auto).
      cbn [bind Ok]. unfold layout at 1. rewrite get_if_public_pub by auto. cbn [bind Ok].
      fold (layout (fst v) kd key). cbn [andb negb].
      destruct (negb (length (layout (fst v) kd key) =? bip32_ser_pub_len)%nat); [reflexivity|].
      rewrite get_parts_layout by auto. cbn [bind Ok fst snd]. apply Hfin.
    - rewrite ser_priv_layout in E by auto. inversion E; subst s; clear E.
      unfold Bip32Ser.from_extended, Bip32Ser.deserialize.
      rewrite cd_enc by (apply layout_bytes_ok; auto; constructor; auto; lia).
      cbn [bind Ok]. unfold layout at 1. rewrite get_if_public_priv by auto. cbn [bind Ok].
      fold (layout (snd v) kd (0 :: key)). cbn [andb negb].
      destruct (negb (nat_mem (length (layout (snd v) kd (0 :: key))) bip32_ser_priv_lens)); [reflexivity|].
      rewrite get_parts_layout by auto. cbn [nth_error of_option bind Ok N.eqb negb skipn fst snd]. apply Hfin.
  Qed.

  (* ---- the deserialiser on an arbitrary decoded payload *)
  Lemma check_decode_bytes_ok s ser : check_decode s = Ok ser -> bytes_ok ser.
  Proof.
    intros H. apply cd_iff in H. destruct H as (dec & D & -> & _).
    apply bytes_ok_firstn. eapply decode_ok_bytes; eauto.
  Qed.

  (* exact description of every run of from_extended that gets past Base58Check *)
  Definition is_priv_len (n : nat) : Prop := n = 78%nat \/ n = 110%nat.

  Theorem from_extended_spec s v ser : check_decode s = Ok ser ->
    from_extended s v =
      if list_eqb (firstn 4 ser) (fst v) then
        if negb (length ser =? 78)%nat then Err (LibError Bip32KeyError) else
        let kd := mk_kd (nth 4 ser 0) (be_to_int (slice 9 13 ser)) (slice 13 45 ser) (slice 5 9 ser) in
        if (kd_depth kd =? 0) && negb (fprint_is_master (kd_fp kd)) then Err (LibError Bip32KeyError)
        else if (kd_depth kd =? 0) && negb (kd_index kd =? 0) then Err (LibError Bip32KeyError)
        else construct true (skipn 45 ser) kd
      else if list_eqb (firstn 4 ser) (snd v) then
        if negb (nat_mem (length ser) [78%nat; 110%nat]) then Err (LibError Bip32KeyError) else
        let kd := mk_kd (nth 4 ser 0) (be_to_int (slice 9 13 ser)) (slice 13 45 ser) (slice 5 9 ser) in
        if negb (nth 45 ser 0 =? 0) then Err (LibError Bip32KeyError)
        else if (kd_depth kd =? 0) && negb (fprint_is_master (kd_fp kd)) then Err (LibError Bip32KeyError)
        else if (kd_depth kd =? 0) && negb (kd_index kd =? 0) then Err (LibError Bip32KeyError)
        else construct false (skipn 46 ser) kd
      else Err (LibError Bip32KeyError).
  Proof.
    intros D. pose proof (check_decode_bytes_ok _ _ D) as Hb.
    unfold Bip32Ser.from_extended, Bip32Ser.deserialize. rewrite D. cbn [bind Ok].
    unfold get_if_public, ver_pub, ver_priv. rewrite c_ver_len.
    destruct (list_eqb (firstn 4 ser) (fst v)) eqn:E1.
    - cbn [bind Ok andb negb]. rewrite c_ser_pub_len.
      destruct (Nat.eqb_spec (length ser) 78) as [L|L]; cbn [negb]; [|reflexivity].
      destruct (get_parts_long ser true Hb ltac:(lia)) as (d & N4 & Hd & _ & G).
      rewrite G. cbn [bind Ok fst snd]. rewrite (nth_error_nth _ _ 0 N4). reflexivity.
    - destruct (list_eqb (firstn 4 ser) (snd v)) eqn:E2; [|reflexivity].
      cbn [bind Ok andb negb]. rewrite c_ser_priv_lens.
      destruct (nat_mem (length ser) [78%nat; 110%nat]) eqn:M; cbn [negb]; [|reflexivity].
      assert (L : (78 <= length ser)%nat).
      { rewrite <- c_ser_priv_lens in M. apply nat_mem_priv_lens in M. lia. }
      destruct (get_parts_long ser false Hb L) as (d & N4 & Hd & _ & G).
      rewrite G. rewrite (nth_error_nth _ _ 0 N4).
      destruct (nth_error ser 45) as [k0|] eqn:N45; [|apply nth_error_None in N45; lia].
      rewrite (nth_error_nth _ _ 0 N45). cbn [of_option bind Ok].
      destruct (negb (k0 =? 0)); reflexivity.
  Qed.

  (* ---- deser_rejects : each rejection clause, and nothing but the documented classes *)
  Theorem reject_text_damage s v e : check_decode s = Err e ->
    from_extended s v = Err e /\ (e = ValueError \/ e = LibError Base58ChecksumError).
  Proof.
    intros D. split; [|eapply cd_err; eauto].
    unfold Bip32Ser.from_extended, Bip32Ser.deserialize. rewrite D. reflexivity.
  Qed.

  Theorem reject_unknown_version s v ser : check_decode s = Ok ser ->
    firstn 4 ser <> fst v -> firstn 4 ser <> snd v -> from_extended s v = Err (LibError Bip32KeyError).
  Proof.
    intros D H1 H2. rewrite (from_extended_spec _ _ _ D). rewrite !list_eqb_false by auto. reflexivity.
  Qed.

  Theorem reject_wrong_length_pub s v ser : check_decode s = Ok ser ->
    firstn 4 ser = fst v -> length ser <> 78%nat -> from_extended s v = Err (LibError Bip32KeyError).
  Proof.
    intros D H1 L. rewrite (from_extended_spec _ _ _ D). rewrite H1, list_eqb_refl.
    destruct (Nat.eqb_spec (length ser) 78); [contradiction|reflexivity].
  Qed.

  Theorem reject_wrong_length_priv s v ser : check_decode s = Ok ser -> fst v <> snd v ->
    firstn 4 ser = snd v -> ~ is_priv_len (length ser) -> from_extended s v = Err (LibError Bip32KeyError).
  Proof.
    intros D Hne H1 L. rewrite (from_extended_spec _ _ _ D). rewrite H1, list_eqb_false, list_eqb_refl by congruence.
    destruct (nat_mem (length ser) [78%nat; 110%nat]) eqn:M; [|reflexivity].
    exfalso. apply L. rewrite <- c_ser_priv_lens in M. apply nat_mem_priv_lens in M. exact M.
  Qed.

  Theorem reject_nonzero_pad s v ser : check_decode s = Ok ser -> fst v <> snd v ->
    firstn 4 ser = snd v -> nth 45 ser 0 <> 0 -> from_extended s v = Err (LibError Bip32KeyError).
  Proof.
    intros D Hne H1 P. rewrite (from_extended_spec _ _ _ D). rewrite H1, list_eqb_false, list_eqb_refl by congruence.
    destruct (negb (nat_mem _ _)); [reflexivity|]. cbv zeta.
    destruct (N.eqb_spec (nth 45 ser 0) 0); [contradiction|reflexivity].
  Qed.

  Theorem reject_invalid_priv_key s v ser : check_decode s = Ok ser -> fst v <> snd v ->
    firstn 4 ser = snd v -> priv_ok (skipn 46 ser) = false -> from_extended s v = Err (LibError Bip32KeyError).
  Proof.
    intros D Hne H1 P. rewrite (from_extended_spec _ _ _ D). rewrite H1, list_eqb_false, list_eqb_refl by congruence.
    cbv zeta. unfold Bip32Ser.construct. rewrite P.
    repeat match goal with |- (if ?c then _ else _) = _ => destruct c end; reflexivity.
  Qed.

  Theorem reject_invalid_pub_key s v ser : check_decode s = Ok ser ->
    firstn 4 ser = fst v -> pub_parse (skipn 45 ser) = None -> from_extended s v = Err (LibError Bip32KeyError).
  Proof.
    intros D H1 P. rewrite (from_extended_spec _ _ _ D). rewrite H1, list_eqb_refl.
    cbv zeta. unfold Bip32Ser.construct. rewrite P.
    repeat match goal with |- (if ?c then _ else _) = _ => destruct c end; reflexivity.
  Qed.

  Theorem reject_master_metadata s v ser : check_decode s = Ok ser -> nth 4 ser 0 = 0 ->
    (slice 5 9 ser <> bip32_fprint_master \/ be_to_int (slice 9 13 ser) <> 0) ->
    from_extended s v = Err (LibError Bip32KeyError).
  Proof.
    intros D D0 Hbad. rewrite (from_extended_spec _ _ _ D). cbv zeta. cbn [kd_depth kd_fp kd_index].
    rewrite D0. cbn [N.eqb andb].
    assert (X : forall (r : res bip32_obj), (if negb (fprint_is_master (slice 5 9 ser)) then Err (LibError Bip32KeyError)
               else if negb (be_to_int (slice 9 13 ser) =? 0) then Err (LibError Bip32KeyError) else r)
               = Err (LibError Bip32KeyError)).
    { intros r. destruct Hbad as [Hf|Hi].
      - unfold fprint_is_master. rewrite list_eqb_false by auto. reflexivity.
      - destruct (fprint_is_master _); [|reflexivity]. cbn [negb].
        destruct (N.eqb_spec (be_to_int (slice 9 13 ser)) 0); [contradiction|reflexivity]. }
    rewrite !X.
    repeat match goal with |- (if ?c then _ else _) = _ => destruct c end; reflexivity.
  Qed.

  (* nothing else: the only exceptions are the two of the text layer (raised there) and Bip32KeyError *)
  Theorem from_extended_errors s v e : from_extended s v = Err e ->
    (check_decode s = Err e /\ (e = ValueError \/ e = LibError Base58ChecksumError)) \/
    ((exists ser, check_decode s = Ok ser) /\ e = LibError Bip32KeyError).
  Proof.
    intros E. destruct (check_decode s) as [ser|e'] eqn:D.
    - right. split; [exists ser; reflexivity|]. rewrite (from_extended_spec _ _ _ D) in E. cbv zeta in E.
      unfold Bip32Ser.construct in E.
      repeat match type of E with
             | (if ?c then _ else _) = _ => destruct c
             | match ?c with Some _ => _ | None => _ end = _ => destruct c
             end; inversion E; reflexivity.
    - destruct (reject_text_damage s v e' D) as [E' C]. rewrite E' in E. inversion E; subst. left; auto.
  Qed.

  (* ---- ser_deser : an accepted string re-serialises to the identical string *)
  Hypothesis pub_parse_canon : forall b c, pub_parse b = Some c -> length b = 33%nat -> c = b.

  Lemma check_encode_back s ser : check_decode s = Ok ser -> (78 <= length ser)%nat -> check_encode ser = s.
  Proof.
    intros D L. apply ce_dec; auto. intros dec Hdec. apply cd_iff in D.
    destruct D as (dec' & D' & -> & _). rewrite Hdec in D'. inversion D'; subst dec'.
    unfold drop_last in L. rewrite firstn_length in L. lia.
  Qed.

  Lemma relayout ser ver k : bytes_ok ser -> (78 <= length ser)%nat -> firstn 4 ser = ver -> skipn 45 ser = k ->
    nth_error ser 4 = Some (nth 4 ser 0) ->
    ser_payload k (mk_kd (nth 4 ser 0) (be_to_int (slice 9 13 ser)) (slice 13 45 ser) (slice 5 9 ser)) ver = Ok ser.
  Proof.
    intros Hb L Ev Ek N4. unfold ser_payload. cbn [kd_depth kd_index kd_cc kd_fp].
    assert (Hd : nth 4 ser 0 < 256).
    { apply nth_error_In in N4. unfold bytes_ok in Hb. rewrite Forall_forall in Hb. auto. }
    rewrite depth_to_bytes_ok by auto. cbn [bind Ok].
    rewrite index_bytes_roundtrip by (auto using bytes_ok_slice; rewrite slice_length; lia).
    cbn [bind Ok]. rewrite <- Ev, <- Ek, <- (slice_nth _ _ _ N4). unfold Ok. f_equal. symmetry. apply payload_split.
  Qed.

  Theorem ser_deser s v o : from_extended s v = Ok o -> to_extended o v = Ok s.
  Proof.
    intros E. destruct (check_decode s) as [ser|e'] eqn:D.
    2:{ destruct (reject_text_damage s v e' D) as [E' _]. rewrite E' in E. discriminate. }
    pose proof (check_decode_bytes_ok _ _ D) as Hb.
    rewrite (from_extended_spec _ _ _ D) in E. cbv zeta in E.
    destruct (list_eqb (firstn 4 ser) (fst v)) eqn:E1.
    - apply list_eqb_spec in E1.
      destruct (Nat.eqb_spec (length ser) 78) as [L|L]; cbn [negb] in E; [|discriminate].
      destruct ((_ =? 0) && _) in E; [discriminate|]. destruct ((_ =? 0) && _) in E; [discriminate|].
      unfold Bip32Ser.construct in E.
      destruct (pub_parse (skipn 45 ser)) as [c|] eqn:P; [|discriminate]. inversion E; subst o; clear E.
      assert (c = skipn 45 ser) by (apply pub_parse_canon; auto; rewrite skipn_length; lia). subst c.
      unfold Bip32Ser.to_extended. cbn [o_public o_kd o_key]. unfold Bip32Ser.ser_pub, Bip32Ser.serialize, ver_pub.
      rewrite relayout; auto; try lia.
      + cbn [bind Ok]. f_equal. apply check_encode_back; auto; lia.
      + apply nth_error_nth'. lia.
    - destruct (list_eqb (firstn 4 ser) (snd v)) eqn:E2; [|discriminate]. apply list_eqb_spec in E2.
      destruct (nat_mem (length ser) [78%nat; 110%nat]) eqn:M; cbn [negb] in E; [|discriminate].
      assert (L : (78 <= length ser)%nat).
      { rewrite <- c_ser_priv_lens in M. apply nat_mem_priv_lens in M. lia. }
      destruct (N.eqb_spec (nth 45 ser 0) 0) as [P0|P0]; cbn [negb] in E; [|discriminate].
      destruct ((_ =? 0) && _) in E; [discriminate|]. destruct ((_ =? 0) && _) in E; [discriminate|].
      unfold Bip32Ser.construct in E. destruct (priv_ok (skipn 46 ser)); [|discriminate].
      inversion E; subst o; clear E.
      unfold Bip32Ser.to_extended. cbn [o_public o_kd o_key]. unfold Bip32Ser.ser_priv, Bip32Ser.serialize, ver_priv.
      rewrite c_priv_pad. rewrite relayout; auto; try lia.
      + cbn [bind Ok]. f_equal. apply check_encode_back; auto; lia.
      + assert (N45 : nth_error ser 45 = Some (nth 45 ser 0)) by (apply nth_error_nth'; lia).
        rewrite P0 in N45. rewrite (slice_split 45 46 ser) by lia. rewrite (slice_nth _ _ _ N45). reflexivity.
      + apply nth_error_nth'. lia.
  Qed.

  (* corollary: parsing is injective -- two accepted strings that parse to the same object are equal *)
  Corollary from_extended_inj s1 s2 v o : from_extended s1 v = Ok o -> from_extended s2 v = Ok o -> s1 = s2.
  Proof.
    intros A B. apply ser_deser in A. apply ser_deser in B. rewrite A in B. inversion B; reflexivity.
  Qed.
End Bip32SerProofs.

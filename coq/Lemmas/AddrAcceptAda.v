(* Acceptance characterisations of the Cardano address decoders (Model/AddrAdaShelley.v, Model/AddrAdaByron.v)
   -- property C10, address level.

   Shelley: relative to the Bech32 layer (a Section variable of the model), then on the concrete Bech32 model
   of C10 with its canonicity theorem.
   Byron: the library hands untrusted CBOR to cbor2, an oracle in the model.  The characterisation is relative to
   the parsers; "every accepted string is the encoder's output" holds exactly when the parsers accept canonical
   CBOR only ([byron_accepted_partial]) and is refuted with parsers that satisfy every law the round-trip theorem
   assumes ([byron_canonical_refuted]: a non-minimal integer head, which RFC 8949 allows and cbor2 accepts).  Bytes
   after the CBOR item were accepted too before the repair of finding C10-BYRON-TRAILING; now [parse_outer] /
   [parse_payload] stand for a reader that demands exactly one item. *)
From Coq Require Import NArith ZArith Arith List Lia Bool.
From BU Require Import Base.Exn Base.Radix Base.Bytes Gen.Consts Gen.ConstsCardmon.
From BU Require Import Model.EdLib Model.CborEnc Model.Bip32Kholaw Model.AddrAdaShelley Model.AddrAdaByron.
From BU Require Import Lemmas.CardmonConstsOk Lemmas.EdLib Lemmas.CborEnc Lemmas.AddrAdaShelley.
From BU Require Model.Bech32 Model.Bech32Str Lemmas.Bech32 Lemmas.Base58 Lemmas.ConstsOk.
From BU Require Import Lemmas.AddrAcceptB58.
Import ListNotations.
Open Scope N_scope.

Lemma Some_inj_opt {A} (a b : A) : Some a = Some b -> a = b.
Proof. intros H. injection H. auto. Qed.

Lemma strip_prefix_iff p dec rest : strip_prefix p dec = Ok rest <-> dec = p ++ rest.
Proof.
  unfold strip_prefix. split.
  - destruct (list_eqb p (firstn (length p) dec)) eqn:E; [|discriminate]. apply list_eqb_spec in E.
    intros H. apply Ok_inj in H. subst rest. rewrite E at 1. symmetry. apply firstn_skipn.
  - intros ->. apply strip_prefix_app.
Qed.

Section Shelley.
  Variable b32_dec : list N -> list N -> option (list N).

  (* header byte (type 0000 = payment key + stake key) ‖ 28-byte key hash ‖ 28-byte stake key hash *)
  Theorem decode_payment_accepts_iff net s d : In net ada_nets ->
    (decode_payment b32_dec net s = Ok d <->
     b32_dec (net_hrp net) s = Some ([0 * 16 + net_tag net] ++ d) /\ length d = (28 + 28)%nat).
  Proof.
    intros Hn. destruct (prefix_bytes net Hn) as (P & _ & _). unfold decode_payment. rewrite P, ada_keyhash_len_28. split.
    - destruct (b32_dec (net_hrp net) s) as [dec|]; cbn [of_option bind Ok Err]; [|discriminate].
      destruct (Nat.eqb_spec (length dec) (28 * 2 + 1)) as [L|]; [|discriminate].
      intros H. apply strip_prefix_iff in H. subst dec. split; [reflexivity|]. rewrite app_length in L. simpl in L. lia.
    - intros [E L]. rewrite E. cbn [of_option bind Ok].
      rewrite app_length, L. cbn [length Nat.add Nat.mul Nat.eqb]. apply strip_prefix_app.
  Qed.

  (* header byte (type 1110 = reward address) ‖ 28-byte stake key hash *)
  Theorem decode_staking_accepts_iff net s d : In net ada_nets ->
    (decode_staking b32_dec net s = Ok d <->
     b32_dec (net_stake_hrp net) s = Some ([14 * 16 + net_tag net] ++ d) /\ length d = 28%nat).
  Proof.
    intros Hn. destruct (prefix_bytes net Hn) as (_ & P & _). unfold decode_staking. rewrite P, ada_keyhash_len_28. split.
    - destruct (b32_dec (net_stake_hrp net) s) as [dec|]; cbn [of_option bind Ok Err]; [|discriminate].
      destruct (Nat.eqb_spec (length dec) (28 + 1)) as [L|]; [|discriminate].
      intros H. apply strip_prefix_iff in H. subst dec. split; [reflexivity|]. rewrite app_length in L. simpl in L. lia.
    - intros [E L]. rewrite E. cbn [of_option bind Ok].
      rewrite app_length, L. cbn [length Nat.add Nat.eqb]. apply strip_prefix_app.
  Qed.
End Shelley.

(* on the Bech32 model of C10 *)
Definition bech32_dec_opt (hrp s : list N) : option (list N) :=
  match Bech32.bech32_decode hrp s with inl b => Some b | inr _ => None end.

Theorem shelley_payment_accepted_is_encoding net s d : In net ada_nets ->
  decode_payment bech32_dec_opt net s = Ok d ->
  Bech32.bech32_encode (net_hrp net) ([0 * 16 + net_tag net] ++ d) = Ok (Bech32Str.py_lower s) /\ length d = 56%nat.
Proof.
  intros Hn H. apply (decode_payment_accepts_iff bech32_dec_opt net s d Hn) in H. destruct H as [E L]. split; [|exact L].
  unfold bech32_dec_opt in E. destruct (Bech32.bech32_decode (net_hrp net) s) as [b|] eqn:D; [|discriminate].
  apply Some_inj_opt in E. subst b. apply Lemmas.Bech32.bech32_dec_then_enc. exact D.
Qed.

Theorem shelley_staking_accepted_is_encoding net s d : In net ada_nets ->
  decode_staking bech32_dec_opt net s = Ok d ->
  Bech32.bech32_encode (net_stake_hrp net) ([14 * 16 + net_tag net] ++ d) = Ok (Bech32Str.py_lower s) /\ length d = 28%nat.
Proof.
  intros Hn H. apply (decode_staking_accepts_iff bech32_dec_opt net s d Hn) in H. destruct H as [E L]. split; [|exact L].
  unfold bech32_dec_opt in E. destruct (Bech32.bech32_decode (net_stake_hrp net) s) as [b|] eqn:D; [|discriminate].
  apply Some_inj_opt in E. subst b. apply Lemmas.Bech32.bech32_dec_then_enc. exact D.
Qed.

(* ================================================================== Byron *)
Section Byron.
  Variable crc32 : list N -> N.
  Variable parse_outer : list N -> option (N * list N * N).
  Variable parse_payload : list N -> option (list N * option (list N) * N).
  Variable parse_bytes : list N -> option (list N).

  Notation decode_addr := (decode_addr crc32 parse_outer parse_payload parse_bytes).

  Definition enc_tail (enc : option (list N)) : list N := match enc with Some e => e | None => [] end.

  (* Base58 of a CBOR item that parses as [tag 24 (bytes value), crc] with crc = CRC-32(value); value parses as
     [root hash (28 bytes), attributes, type = public key]; attribute 1, if present, parses as a byte string *)
  Theorem byron_decode_accepts_iff s out :
    decode_addr s = Ok out <->
    exists ser value rh attr1 enc,
      b58dec s = Ok ser /\ parse_outer ser = Some (ada_byron_payload_tag, value, crc32 value) /\
      parse_payload value = Some (rh, attr1, ada_byron_type_pubkey) /\ length rh = ada_keyhash_len /\
      match attr1 with Some v => parse_bytes v = enc /\ enc <> None | None => enc = None end /\
      out = rh ++ enc_tail enc.
  Proof.
    unfold AddrAdaByron.decode_addr. split.
    - destruct (b58dec s) as [ser|] eqn:D; cbn [bind]; [|discriminate].
      destruct (parse_outer ser) as [[[tag value] crc]|] eqn:PO; cbn [of_option bind Ok Err]; [|discriminate].
      destruct (N.eqb_spec tag ada_byron_payload_tag) as [->|]; [|discriminate].
      destruct (N.eqb_spec (crc32 value) crc) as [<-|]; [|discriminate].
      destruct (parse_payload value) as [[[rh attr1] ty]|] eqn:PP; cbn [of_option bind Ok Err]; [|discriminate].
      destruct (Nat.eqb_spec (length rh) ada_keyhash_len) as [L|]; [|discriminate].
      destruct attr1 as [v|].
      + destruct (parse_bytes v) as [e|] eqn:PB; cbn [of_option rmap bind Ok Err]; [|discriminate].
        destruct (N.eqb_spec ty ada_byron_type_pubkey) as [->|]; [|discriminate].
        intros H. apply Ok_inj in H. subst out. exists ser, value, rh, (Some v), (Some e).
        repeat split; auto. discriminate.
      + cbn [bind]. destruct (N.eqb_spec ty ada_byron_type_pubkey) as [->|]; [|discriminate].
        intros H. apply Ok_inj in H. subst out. exists ser, value, rh, None, None. repeat split; auto.
    - intros (ser & value & rh & attr1 & enc & D & PO & PP & L & A & ->). rewrite D. cbn [bind Ok].
      rewrite PO. cbn [of_option bind Ok]. rewrite !N.eqb_refl. rewrite PP. cbn [of_option bind Ok].
      rewrite L, Nat.eqb_refl. destruct attr1 as [v|].
      + destruct A as [PB Hn]. rewrite PB. destruct enc as [e|]; [|contradiction].
        cbn [of_option rmap bind Ok]. rewrite N.eqb_refl. reflexivity.
      + subst enc. cbn [bind Ok]. rewrite N.eqb_refl. reflexivity.
  Qed.

  (* with parsers that accept canonical (RFC 8949 shortest-form, nothing after the item) CBOR only, every
     accepted string IS the Base58 text of the encoder's CBOR for the returned root hash and path *)
  Hypothesis parse_outer_canon : forall ser t v c, parse_outer ser = Some (t, v, c) ->
    ser = cbor_array [cbor_tag t (cbor_bytes v); cbor_uint c].
  Hypothesis parse_payload_canon : forall v rh a ty, parse_payload v = Some (rh, a, ty) ->
    v = cbor_array [cbor_bytes rh;
                    match a with Some x => cbor_map [(cbor_uint 1, cbor_bytes x)] | None => cbor_map [] end;
                    cbor_uint ty].
  Hypothesis parse_bytes_canon : forall x e, parse_bytes x = Some e -> x = cbor_bytes e.

  Theorem byron_accepted_partial s out : decode_addr s = Ok out ->
    exists rh enc, s = b58enc (addr_cbor crc32 (payload_cbor rh enc ada_byron_type_pubkey)) /\
      length rh = ada_keyhash_len /\ out = rh ++ enc_tail enc.
  Proof.
    intros H. apply byron_decode_accepts_iff in H.
    destruct H as (ser & value & rh & attr1 & enc & D & PO & PP & L & A & ->).
    exists rh, enc. split; [|auto].
    apply (Lemmas.Base58.encode_decode _ _ ConstsOk.b58_alph_btc_nodup ConstsOk.b58_alph_btc_len ConstsOk.b58_radix_ge2) in D.
    unfold b58enc. rewrite <- D. f_equal. rewrite (parse_outer_canon _ _ _ _ PO). unfold addr_cbor. do 4 f_equal.
    - rewrite (parse_payload_canon _ _ _ _ PP). unfold payload_cbor, attrs_cbor. destruct attr1 as [v|].
      + destruct A as [PB Hn]. destruct enc as [e|]; [|contradiction]. rewrite (parse_bytes_canon _ _ PB). reflexivity.
      + subst enc. reflexivity.
    - rewrite (parse_payload_canon _ _ _ _ PP). unfold payload_cbor, attrs_cbor. destruct attr1 as [v|].
      + destruct A as [PB Hn]. destruct enc as [e|]; [|contradiction]. rewrite (parse_bytes_canon _ _ PB). reflexivity.
      + subst enc. reflexivity.
  Qed.
End Byron.

(* ---- refutation: parsers that satisfy every law the round-trip theorem (Lemmas/AddrAdaByron.v) assumes of
   cbor2, and an accepted string that is not the encoder's output ---- *)
Definition zero_crc (_ : list N) : N := 0.
Definition zero28 (_ : list N) : list N := repeat 0 28.

(* s1: the encoder's address (Icarus style, no path) of an all-zero key under the constant-zero hashes;
   s2: the same CBOR with the CRC written in the two-byte form 18 00 instead of 00 (well-formed CBOR, RFC 8949) *)
Theorem byron_canonical_refuted : exists s1 s2 out,
  encode_key zero28 zero28 zero_crc [] [] None = s1 /\ s2 <> s1 /\
  decode_addr zero_crc toy_parse_outer toy_parse_payload toy_parse_bytes s1 = Ok out /\
  decode_addr zero_crc toy_parse_outer toy_parse_payload toy_parse_bytes s2 = Ok out.
Proof.
  set (payload := payload_cbor (repeat 0 28) None ada_byron_type_pubkey).
  exists (b58enc (addr_cbor zero_crc payload)),
         (b58enc (cbor_head 4 2 ++ cbor_tag ada_byron_payload_tag (cbor_bytes payload) ++ [24; 0])), (repeat 0 28).
  split; [vm_compute; reflexivity|]. split; [vm_compute; discriminate|].
  split; vm_compute; reflexivity.
Qed.

(* a byte after the CBOR item: refused by a reader that demands exactly one item (the toy parser does) *)
Theorem byron_trailing_byte_rejected : exists s1 s3 out,
  encode_key zero28 zero28 zero_crc [] [] None = s1 /\
  b58dec s3 = rmap (fun b => b ++ [0]) (b58dec s1) /\
  decode_addr zero_crc toy_parse_outer toy_parse_payload toy_parse_bytes s1 = Ok out /\
  decode_addr zero_crc toy_parse_outer toy_parse_payload toy_parse_bytes s3 = Err ValueError.
Proof.
  set (payload := payload_cbor (repeat 0 28) None ada_byron_type_pubkey).
  exists (b58enc (addr_cbor zero_crc payload)), (b58enc (addr_cbor zero_crc payload ++ [0])), (repeat 0 28).
  repeat split; vm_compute; reflexivity.
Qed.

(* Proofs about Model/Ed25519Lib.v.  No number theory: everything here is byte/bit-level or
   elementary modular arithmetic.  Group laws are never claimed. *)
From Coq Require Import NArith ZArith List Bool Lia.
From BU Require Import Base.Exn Base.Radix Base.Bytes Model.Ed25519Lib.
Import ListNotations.
Open Scope Z_scope.

(* ---- powmod: square-and-multiply computes b^e mod m ---- *)

Lemma powmod_pos_spec b m : m <> 0 -> forall e, powmod_pos b e m = (b ^ Zpos e) mod m.
Proof.
  intros Hm. induction e as [e IH|e IH|]; cbn [powmod_pos].
  - rewrite IH. rewrite Pos2Z.inj_xI.
    replace (2 * Z.pos e + 1) with (Z.pos e + Z.pos e + 1) by lia.
    rewrite !Z.pow_add_r, Z.pow_1_r by lia.
    rewrite <- Z.mul_mod by assumption.
    rewrite Z.mul_mod_idemp_l by assumption. reflexivity.
  - rewrite IH. rewrite Pos2Z.inj_xO.
    replace (2 * Z.pos e) with (Z.pos e + Z.pos e) by lia.
    rewrite Z.pow_add_r by lia. rewrite <- Z.mul_mod by assumption. reflexivity.
  - rewrite Z.pow_1_r. reflexivity.
Qed.

Theorem powmod_spec b e m : 0 <= e -> m <> 0 -> powmod b e m = (b ^ e) mod m.
Proof.
  intros He Hm. destruct e as [|p|p]; cbn [powmod].
  - reflexivity.
  - apply powmod_pos_spec; assumption.
  - lia.
Qed.

Lemma powmod_range b e m : 0 <= e -> 0 < m -> 0 <= powmod b e m < m.
Proof. intros He Hm. rewrite powmod_spec by lia. apply Z.mod_pos_bound; assumption. Qed.

(* ---- small arithmetic helpers ---- *)

Lemma Zodd_of_N n : Z.odd (Z.of_N n) = N.odd n.
Proof. destruct n as [|[p|p|]]; reflexivity. Qed.

Lemma lor_128 h : (h < 128)%N -> N.lor h 128 = (h + 128)%N.
Proof.
  intros Hh.
  assert (A : forallb (fun h => N.eqb (N.lor h 128) (h + 128)) (map N.of_nat (seq 0 128)) = true)
    by (vm_compute; reflexivity).
  rewrite forallb_forall in A. apply N.eqb_eq, A.
  rewrite <- (Nnat.N2Nat.id h). apply in_map, in_seq. lia.
Qed.

Lemma land_pow2_eqb0 a n : 0 <= n -> (Z.land a (2 ^ n) =? 0) = negb (Z.testbit a n).
Proof.
  intros Hn. destruct (Z.testbit a n) eqn:T; cbn [negb].
  - apply Z.eqb_neq. intro E.
    assert (B : Z.testbit (Z.land a (2 ^ n)) n = true)
      by (rewrite Z.land_spec, T, Z.pow2_bits_true by assumption; reflexivity).
    rewrite E in B. rewrite Z.bits_0 in B. discriminate.
  - apply Z.eqb_eq. apply Z.bits_inj'. intros m Hm.
    rewrite Z.land_spec, Z.bits_0, Z.pow2_bits_eqb by assumption.
    destruct (Z.eqb_spec n m) as [->|]; [rewrite T; reflexivity|apply andb_false_r].
Qed.

Lemma pow256_32 : (256 ^ N.of_nat 32 = 2 ^ 256)%N.
Proof. vm_compute. reflexivity. Qed.
Lemma pow256_31_128 : (256 ^ N.of_nat 31 * 128 = 2 ^ 255)%N.
Proof. vm_compute. reflexivity. Qed.

Section Ed25519LibProofs.
  Variables (q l d sqrtm1 : Z) (clen : nat) (clamp sign_bit : Z) (sign_byte : N).
  Hypothesis Hclen : clen = 32%nat.

  (* ---- int_encode / int_decode: 32-byte little-endian round trip ---- *)

  Lemma int_encode_ok v b : int_encode clen v = Ok b ->
    bytes_ok b /\ length b = clen /\ int_decode b = v.
  Proof.
    unfold int_encode, int_decode. destruct (Z.ltb_spec v 0) as [|Hv]; [discriminate|].
    intros E. apply int_to_le_fixed_ok in E. destruct E as (H1 & H2 & H3).
    repeat split; auto. rewrite H3. apply Z2N.id; assumption.
  Qed.

  Lemma int_encode_fits v : 0 <= v < 2 ^ 256 -> exists b, int_encode clen v = Ok b.
  Proof.
    intros [H0 H1]. unfold int_encode. destruct (Z.ltb_spec v 0); [lia|].
    apply int_to_le_fixed_fits. rewrite Hclen, pow256_32.
    apply N2Z.inj_lt. rewrite Z2N.id by assumption. rewrite N2Z.inj_pow. exact H1.
  Qed.

  Lemma int_encode_overflow v : v < 0 \/ 2 ^ 256 <= v -> int_encode clen v = Err OverflowError.
  Proof.
    intros H. unfold int_encode. destruct (Z.ltb_spec v 0) as [|Hv]; [reflexivity|].
    destruct H as [|H]; [lia|]. unfold int_to_le_fixed.
    destruct (Nat.leb_spec (length (to_le 256 (Z.to_N v))) clen) as [Hl|]; [exfalso|reflexivity].
    pose proof (from_le_lt 256 r256 _ (to_le_digits 256 r256 (Z.to_N v))) as B.
    rewrite from_to_le in B by exact r256.
    assert (256 ^ N.of_nat (length (to_le 256 (Z.to_N v))) <= 256 ^ N.of_nat 32)%N
      by (apply N.pow_le_mono_r; lia).
    rewrite pow256_32 in *.
    assert (Z.of_N (Z.to_N v) < Z.of_N (2 ^ 256)) by (apply N2Z.inj_lt; lia).
    rewrite Z2N.id in * by assumption. rewrite N2Z.inj_pow in *. lia.
  Qed.

  Lemma int_decode_encode b : bytes_ok b -> length b = clen -> int_encode clen (int_decode b) = Ok b.
  Proof.
    intros Hb Hl. unfold int_encode, int_decode.
    destruct (Z.ltb_spec (Z.of_N (le_to_int b)) 0) as [H|_]; [pose proof (N2Z.is_nonneg (le_to_int b)); lia|].
    rewrite N2Z.id, <- Hl. apply le_fixed_roundtrip; assumption.
  Qed.

  Lemma int_decode_range b : bytes_ok b -> length b = clen -> 0 <= int_decode b < 2 ^ 256.
  Proof.
    intros Hb Hl. unfold int_decode. split; [apply N2Z.is_nonneg|].
    pose proof (from_le_lt 256 r256 b Hb) as B. rewrite Hl, Hclen, pow256_32 in B.
    apply N2Z.inj_lt in B. rewrite N2Z.inj_pow in B. exact B.
  Qed.

  Lemma int_decode_inj a b : bytes_ok a -> bytes_ok b -> length a = clen -> length b = clen ->
    int_decode a = int_decode b -> a = b.
  Proof.
    intros Ha Hb La Lb E. pose proof (int_decode_encode a Ha La) as A.
    pose proof (int_decode_encode b Hb Lb) as B. rewrite E in A. rewrite A in B. inversion B; reflexivity.
  Qed.

  Theorem int_encode_decode :
    (forall v b, int_encode clen v = Ok b -> bytes_ok b /\ length b = clen /\ int_decode b = v) /\
    (forall v, 0 <= v < 2 ^ 256 -> exists b, int_encode clen v = Ok b) /\
    (forall v, v < 0 \/ 2 ^ 256 <= v -> int_encode clen v = Err OverflowError) /\
    (forall b, bytes_ok b -> length b = clen -> int_encode clen (int_decode b) = Ok b).
  Proof. repeat split; auto using int_encode_fits, int_encode_overflow, int_decode_encode; eapply int_encode_ok; eauto. Qed.

  (* ---- scalar_reduce = reduction modulo the group order ---- *)

  Theorem scalar_reduce_spec b : 0 < l <= 2 ^ 256 -> bytes_ok b -> (length b <= clen * 2)%nat ->
    exists r, scalar_reduce_bytes l clen b = Ok r /\ bytes_ok r /\ length r = clen /\
              int_decode r = int_decode b mod l.
  Proof.
    intros Hl Hb Hlen. unfold scalar_reduce_bytes.
    rewrite app_length, repeat_length.
    replace (length b + (clen * 2 - length b))%nat with (clen * 2)%nat by lia.
    rewrite Nat.eqb_refl. cbn [negb].
    assert (E : int_decode (b ++ repeat 0%N (clen * 2 - length b)) = int_decode b)
      by (unfold int_decode, le_to_int; rewrite (from_le_pad 256 r256); reflexivity).
    rewrite E.
    assert (R : 0 <= int_decode b mod l < l) by (apply Z.mod_pos_bound; lia).
    destruct (int_encode_fits (int_decode b mod l) ltac:(lia)) as [r Hr].
    exists r. unfold int_encode in Hr. destruct (Z.ltb_spec (int_decode b mod l) 0); [lia|].
    split; [exact Hr|].
    assert (Hr' : int_encode clen (int_decode b mod l) = Ok r)
      by (unfold int_encode; destruct (Z.ltb_spec (int_decode b mod l) 0); [lia|exact Hr]).
    apply int_encode_ok in Hr'. tauto.
  Qed.

  Lemma scalar_reduce_too_long b : (clen * 2 < length b)%nat -> scalar_reduce_bytes l clen b = Err TypeError.
  Proof.
    intros H. unfold scalar_reduce_bytes. rewrite app_length, repeat_length.
    replace (clen * 2 - length b)%nat with 0%nat by lia. rewrite Nat.add_0_r.
    destruct (Nat.eqb_spec (length b) (clen * 2)); [lia|reflexivity].
  Qed.

  (* ---- point_encode at the level of integers ---- *)
  Hypothesis Hsbyte : sign_byte = 128%N.

  Lemma first_byte_parity x0 t : N.odd (le_to_int (x0 :: t)) = N.odd x0.
  Proof.
    unfold le_to_int. cbn [from_le].
    replace (256 * from_le 256 t)%N with (2 * (128 * from_le 256 t))%N by lia.
    apply N.odd_add_mul_2.
  Qed.

  Lemma point_encode_int x y : 0 <= x < 2 ^ 256 -> 0 <= y < 2 ^ 255 ->
    exists s, point_encode clen sign_byte (x, y) = Ok s /\ bytes_ok s /\ length s = clen /\
              int_decode s = y + (if Z.odd x then 2 ^ 255 else 0).
  Proof.
    intros Hx Hy.
    destruct (int_encode_fits x Hx) as [xb Exb]. destruct (int_encode_fits y ltac:(lia)) as [yb Eyb].
    destruct (int_encode_ok _ _ Exb) as (Bx & Lx & Dx). destruct (int_encode_ok _ _ Eyb) as (By & Ly & Dy).
    unfold point_encode, point_coord_to_bytes. cbn [fst snd]. rewrite Exb, Eyb. cbn [bind Ok].
    assert (Sk : skipn clen (xb ++ yb) = yb)
      by (rewrite <- Lx, skipn_app, skipn_all, Nat.sub_diag; reflexivity).
    rewrite !Sk.
    destruct xb as [|x0 t]; [rewrite Hclen in Lx; discriminate|]. cbn [app nth_error of_option bind Ok].
    assert (Px : N.odd x0 = Z.odd x).
    { rewrite <- Dx. unfold int_decode. rewrite Zodd_of_N. symmetry. apply first_byte_parity. }
    rewrite Px. destruct (Z.odd x).
    - (* set the top bit of the last byte of y *)
      unfold or_last. destruct (rev yb) as [|h t'] eqn:R.
      { apply (f_equal (@length N)) in R. rewrite rev_length, Ly, Hclen in R. discriminate. }
      assert (Eyb' : yb = rev t' ++ [h]) by (rewrite <- (rev_involutive yb), R; reflexivity).
      assert (Lt : length (rev t') = 31%nat).
      { apply (f_equal (@length N)) in Eyb'. rewrite app_length, Ly, Hclen in Eyb'. cbn in Eyb'. lia. }
      assert (Bt : bytes_ok (rev t') /\ (h < 256)%N).
      { rewrite Eyb' in By. apply bytes_ok_app in By. destruct By as [B1 B2]. inversion B2; auto. }
      destruct Bt as [Bt Bh].
      assert (Vy : (le_to_int yb = le_to_int (rev t') + 256 ^ N.of_nat 31 * h)%N).
      { rewrite Eyb'. unfold le_to_int. rewrite (from_le_app 256 r256), Lt. cbn [from_le]. lia. }
      assert (Hh : (h < 128)%N).
      { unfold int_decode in Dy. assert (Y : (le_to_int yb < 2 ^ 255)%N).
        { apply N2Z.inj_lt. rewrite Dy, N2Z.inj_pow. lia. }
        rewrite Vy, <- pow256_31_128 in Y.
        destruct (N.lt_ge_cases h 128) as [|G]; [assumption|exfalso].
        assert (256 ^ N.of_nat 31 * 128 <= 256 ^ N.of_nat 31 * h)%N by (apply N.mul_le_mono_l; assumption).
        lia. }
      exists (rev t' ++ [N.lor h sign_byte]). rewrite Hsbyte, lor_128 by assumption.
      split; [reflexivity|]. split; [|split].
      + apply bytes_ok_app. split; [assumption|]. constructor; [lia|constructor].
      + rewrite app_length, Lt, Hclen. reflexivity.
      + unfold int_decode in *. unfold le_to_int in *. rewrite (from_le_app 256 r256), Lt. cbn [from_le].
        rewrite <- Dy, Vy.
        replace (from_le 256 (rev t') + 256 ^ N.of_nat 31 * (h + 128 + 256 * 0))%N
          with (from_le 256 (rev t') + 256 ^ N.of_nat 31 * h + 256 ^ N.of_nat 31 * 128)%N by lia.
        rewrite pow256_31_128. rewrite N2Z.inj_add, N2Z.inj_pow. reflexivity.
    - exists yb. repeat split; auto. lia.
  Qed.

  (* ---- decoding: sign bit and clamp ---- *)
  Hypothesis Hq : 0 < q < 2 ^ 255.
  Hypothesis Hqodd : Z.odd q = true.
  Hypothesis Hclamp : clamp = Z.ones 255.
  Hypothesis Hsbit : sign_bit = 2 ^ 255.

  Lemma split_255 a : 0 <= a < 2 ^ 256 ->
    Z.land a clamp = a mod 2 ^ 255 /\
    negb (Z.land a sign_bit =? 0) = (2 ^ 255 <=? a) /\
    a = a mod 2 ^ 255 + (if 2 ^ 255 <=? a then 2 ^ 255 else 0).
  Proof.
    intros Ha. rewrite Hclamp, Hsbit, Z.land_ones, land_pow2_eqb0, negb_involutive by lia.
    rewrite Z.testbit_eqb by lia.
    assert (D : a = 2 ^ 255 * (a / 2 ^ 255) + a mod 2 ^ 255) by (apply Z.div_mod; lia).
    assert (M : 0 <= a mod 2 ^ 255 < 2 ^ 255) by (apply Z.mod_pos_bound; lia).
    assert (Q : 0 <= a / 2 ^ 255 < 2).
    { split; [apply Z.div_pos; lia|apply Z.div_lt_upper_bound; lia]. }
    split; [reflexivity|].
    destruct (Z.leb_spec (2 ^ 255) a) as [G|G].
    - assert (a / 2 ^ 255 = 1) by nia. rewrite H. split; [reflexivity|lia].
    - assert (a / 2 ^ 255 = 0) by nia. rewrite H. split; [reflexivity|lia].
  Qed.

  (* THE bit-level theorem, with no number theory: for EVERY 32-byte string s, re-encoding the decoded
     pair gives s back -- whatever x_recover returned, as long as it lies in [0, q].  (The parity fix-up
     [x := q - x] makes the parity of x equal to the sign bit because q is odd.)  This holds also for
     strings that are no curve point and for non-canonical y >= q: point_decode_no_check is injective. *)
  Theorem point_encode_decode_bits (xrec : Z -> Z) s :
    (forall y, 0 <= xrec y <= q) ->
    bytes_ok s -> length s = clen ->
    exists P, point_decode_no_check q clen clamp sign_bit xrec s = Ok P /\
              point_encode clen sign_byte P = Ok s.
  Proof.
    intros Hx Hs Ls. unfold point_decode_no_check, point_is_encoded_bytes.
    rewrite Ls, Nat.eqb_refl. cbn [negb].
    pose proof (int_decode_range s Hs Ls) as R.
    destruct (split_255 _ R) as (E1 & E2 & E3). rewrite E1, E2.
    set (y := int_decode s mod 2 ^ 255) in *.
    set (sg := 2 ^ 255 <=? int_decode s) in *.
    assert (My : 0 <= y < 2 ^ 255) by (apply Z.mod_pos_bound; lia).
    specialize (Hx y).
    set (x := if Bool.eqb (Z.odd (xrec y)) sg then xrec y else q - xrec y).
    assert (Rx : 0 <= x < 2 ^ 256) by (subst x; destruct (Bool.eqb _ _); lia).
    assert (Px : Z.odd x = sg).
    { subst x. destruct (Bool.eqb (Z.odd (xrec y)) sg) eqn:B.
      - apply eqb_prop in B. exact B.
      - rewrite Z.odd_sub, Hqodd. apply eqb_false_iff in B.
        destruct (Z.odd (xrec y)), sg; cbn; congruence. }
    exists (x, y). split; [reflexivity|].
    destruct (point_encode_int x y Rx My) as (s' & Es & Bs & Ls' & Ds).
    rewrite Es. f_equal. apply int_decode_inj; auto.
    rewrite Ds, Px. symmetry. exact E3.
  Qed.

  (* decode after encode, from the explicit hypothesis that x_recover returns one of the two roots
     x, q - x (a fact about square roots in GF(q): assumed, not proved) *)
  Theorem decode_encode_point (xrec : Z -> Z) x y :
    0 <= x < q -> 0 <= y < q ->
    (xrec y = x \/ xrec y = q - x) ->
    exists s, point_encode clen sign_byte (x, y) = Ok s /\ bytes_ok s /\ length s = clen /\
              point_decode_no_check q clen clamp sign_bit xrec s = Ok (x, y).
  Proof.
    intros Rx Ry Hroot.
    destruct (point_encode_int x y ltac:(lia) ltac:(lia)) as (s & Es & Bs & Ls & Ds).
    exists s. repeat split; auto.
    unfold point_decode_no_check, point_is_encoded_bytes. rewrite Ls, Nat.eqb_refl. cbn [negb].
    pose proof (int_decode_range s Bs Ls) as R.
    destruct (split_255 _ R) as (E1 & E2 & _). rewrite E1, E2, Ds.
    assert (Ey : (y + (if Z.odd x then 2 ^ 255 else 0)) mod 2 ^ 255 = y).
    { destruct (Z.odd x).
      - rewrite <- (Z.mul_1_l (2 ^ 255)) at 1. rewrite Z.mod_add by lia. apply Z.mod_small; lia.
      - rewrite Z.add_0_r. apply Z.mod_small; lia. }
    assert (Esg : (2 ^ 255 <=? y + (if Z.odd x then 2 ^ 255 else 0)) = Z.odd x).
    { destruct (Z.odd x); [apply Z.leb_le|apply Z.leb_gt]; lia. }
    rewrite Ey, Esg. f_equal. f_equal.
    destruct Hroot as [-> | ->].
    - rewrite eqb_reflx. reflexivity.
    - rewrite Z.odd_sub, Hqodd. destruct (Z.odd x); cbn; lia.
  Qed.

  (* the library's own x_recover stays in [0, q]: enough for point_encode_decode_bits *)
  Lemma x_recover_range y : 0 <= x_recover q d sqrtm1 y <= q.
  Proof.
    clear Hclen Hsbyte Hqodd Hclamp Hsbit.
    unfold x_recover.
    set (xx := (y * y - 1) * inv q (d * y * y + 1)).
    assert (E : 0 <= (q + 3) / 8) by (apply Z.div_pos; lia).
    pose proof (powmod_range xx ((q + 3) / 8) q E ltac:(lia)) as P.
    set (x0 := powmod xx ((q + 3) / 8) q) in *.
    assert (X1 : 0 <= (if (x0 * x0 - xx) mod q =? 0 then x0 else (x0 * sqrtm1) mod q) < q).
    { destruct (_ =? 0); [exact P|apply Z.mod_pos_bound; lia]. }
    destruct (_ mod 2 =? 0); lia.
  Qed.

  Theorem point_encode_decode_bits_concrete s : bytes_ok s -> length s = clen ->
    exists P, point_decode_no_check q clen clamp sign_bit (x_recover q d sqrtm1) s = Ok P /\
              point_encode clen sign_byte P = Ok s.
  Proof. apply point_encode_decode_bits. apply x_recover_range. Qed.

  (* wrong length: ValueError, for every x_recover *)
  Lemma point_decode_no_check_len (xrec : Z -> Z) s : length s <> clen ->
    point_decode_no_check q clen clamp sign_bit xrec s = Err ValueError.
  Proof.
    intros H. unfold point_decode_no_check, point_is_encoded_bytes.
    destruct (Nat.eqb_spec (length s) clen); [contradiction|reflexivity].
  Qed.

  (* point_decode = point_decode_no_check + curve equation; its only error is ValueError *)
  Lemma point_decode_spec (xrec : Z -> Z) s P :
    point_decode q d clen clamp sign_bit xrec s = Ok P <->
    point_decode_no_check q clen clamp sign_bit xrec s = Ok P /\ on_curve q d P = true.
  Proof.
    unfold point_decode. destruct (point_decode_no_check _ _ _ _ _ s) as [P'|e]; cbn [bind].
    - destruct (on_curve q d P') eqn:C; split.
      + intros E; inversion E; subst; auto.
      + intros [E _]; exact E.
      + discriminate.
      + intros [E C']. inversion E; subst. congruence.
    - split; [discriminate|intros [E _]; discriminate].
  Qed.

  Lemma point_decode_err (xrec : Z -> Z) s e :
    point_decode q d clen clamp sign_bit xrec s = Err e -> e = ValueError.
  Proof.
    unfold point_decode, point_decode_no_check. destruct (negb _); cbn [bind Ok Err].
    - intros E; inversion E; reflexivity.
    - match goal with |- (if ?c then _ else _) = _ -> _ => destruct c end;
        intros E; inversion E; reflexivity.
  Qed.

  (* ---- point addition: the model IS the twisted Edwards formula (a = -1) ---- *)
  Theorem ed_add_formula x1 y1 x2 y2 :
    ed_add q d (x1, y1) (x2, y2) =
      let t := (d * x1 * x2 * y1 * y2) mod q in
      (((x1 * y2 + x2 * y1) * inv q (1 + t)) mod q, ((y1 * y2 + x1 * x2) * inv q (1 - t)) mod q).
  Proof. reflexivity. Qed.

  (* ... and, given that _inv inverts the two denominators (Fermat: a hypothesis, not proved here), the
     result satisfies the defining equations  x3 (1 + d x1x2y1y2) = x1y2 + x2y1,  y3 (1 - d x1x2y1y2) = y1y2 + x1x2 *)
  Theorem ed_add_defining_eqs x1 y1 x2 y2 :
    let t := d * x1 * x2 * y1 * y2 in
    (inv q (1 + t mod q) * (1 + t)) mod q = 1 mod q ->
    (inv q (1 - t mod q) * (1 - t)) mod q = 1 mod q ->
    let '(x3, y3) := ed_add q d (x1, y1) (x2, y2) in
    (x3 * (1 + t)) mod q = (x1 * y2 + x2 * y1) mod q /\
    (y3 * (1 - t)) mod q = (y1 * y2 + x1 * x2) mod q.
  Proof.
    clear Hclen Hsbyte Hqodd Hclamp Hsbit.
    intros t H1 H2. cbn [ed_add]. fold t.
    assert (Hq0 : q <> 0) by lia.
    split.
    - rewrite Z.mul_mod_idemp_l by assumption. rewrite <- Z.mul_assoc.
      rewrite <- Z.mul_mod_idemp_r by assumption. rewrite H1.
      rewrite Z.mul_mod_idemp_r by assumption. f_equal. lia.
    - rewrite Z.mul_mod_idemp_l by assumption. rewrite <- Z.mul_assoc.
      rewrite <- Z.mul_mod_idemp_r by assumption. rewrite H2.
      rewrite Z.mul_mod_idemp_r by assumption. f_equal. lia.
  Qed.
End Ed25519LibProofs.

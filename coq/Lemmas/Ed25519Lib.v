(* Proofs about Model/Ed25519Lib.v.  No number theory: everything here is byte/bit-level or
   elementary modular arithmetic.  Group laws are never claimed. *)
From Coq Require Import NArith ZArith List Bool Lia.
From BU Require Import Base.Exn Base.Radix Base.Bytes Model.Ed25519Lib.
Import ListNotations.
Open Scope Z_scope.

(* ---- powmod: square-and-multiply computes b^e mod m ---- *)

Lemma powmod_pos_spec b m : m <> 0 -> forall e, powmod_pos b e m = (b ^ Zpos e) mod m.
Proof.
  intros Hm. induction e as [e IH|e IH|]; cbn [powmod_pos].
  - rewrite IH. rewrite Pos2Z.inj_xI.
    replace (2 * Z.pos e + 1) with (Z.pos e + Z.pos e + 1) by lia.
    rewrite !Z.pow_add_r, Z.pow_1_r by lia.
    rewrite <- Z.mul_mod by assumption.
    rewrite Z.mul_mod_idemp_l by assumption. reflexivity.
  - rewrite IH. rewrite Pos2Z.inj_xO.
    replace (2 * Z.pos e) with (Z.pos e + Z.pos e) by lia.
    rewrite Z.pow_add_r by lia. rewrite <- Z.mul_mod by assumption. reflexivity.
  - rewrite Z.pow_1_r. reflexivity.
Qed.

Theorem powmod_spec b e m : 0 <= e -> m <> 0 -> powmod b e m = (b ^ e) mod m.
Proof.
  intros He Hm. destruct e as [|p|p]; cbn [powmod].
  - reflexivity.
  - apply powmod_pos_spec; assumption.
  - lia.
Qed.

(* The Base32 and SS58 codec laws that Lemmas/AddrText.v takes as hypotheses, derived from the
   codec theorems of Lemmas/Base32*.v and Lemmas/SS58*.v (property C11). *)
From Coq Require Import NArith ZArith Arith List Bool Lia.
From BU Require Import Base.Exn Base.Radix Base.Bytes Gen.Consts Gen.CodecConsts Gen.AddrTextConsts
  Model.Base58 Model.Base32 Model.Codecs.
From BU Require Lemmas.Base32 Lemmas.Base32Ok Lemmas.SS58Ok.
Import ListNotations.
Open Scope N_scope.

(* the concrete codecs in the argument order Model/AddrText.v uses: Model/AddrCodecs.v *)
From BU Require Export Model.AddrCodecs.

Notation custom_ok := Lemmas.Base32.custom_ok.
Notation eff := Lemmas.Base32.eff.
Notation digits5 := Lemmas.Base32.digits5.

(* shape of EncodeNoPadding: the regrouped digits through the effective alphabet, no pad *)
Lemma enc_nopad_shape b custom : bytes_ok b -> custom_ok custom ->
  exists ds, digits5 b ds /\ b32_enc_nopad custom b = Ok (map (sym32 (eff custom)) ds).
Proof.
  intros Hb Hc. unfold b32_enc_nopad, Codecs.b32_encode_no_padding.
  rewrite Base32Ok.b32_alphabet_rfc, Base32Ok.b32_pad_char_rfc.
  destruct (Lemmas.Base32.encode_shape b custom Hb Hc) as (ds & D & E).
  destruct (Lemmas.Base32.eff_facts custom Hc) as (E1 & E2 & E3). pose proof D as (Hds & _).
  exists ds. split; [exact D|]. unfold Base32.encode_no_padding. rewrite E. cbn [bind Ok].
  rewrite (Lemmas.Base32.rstrip_set_app rfc_pad) by (apply (Lemmas.Base32.syms_not (eff custom) E2); assumption).
  reflexivity.
Qed.

(* law 1: what the encoder produced decodes to the data *)
Lemma b32_rt al d s : custom_ok al -> bytes_ok d -> b32_enc_nopad al d = Ok s -> b32_dec al s = Ok d.
Proof.
  intros Ha Hd E. destruct (Base32Ok.b32_roundtrip_no_padding d al Hd Ha) as (s' & E1 & E2 & _).
  unfold b32_enc_nopad in E. rewrite E in E1. unfold b32_dec. unfold Ok in E1.
  assert (s = s') by congruence. subst s'. exact E2.
Qed.

(* law 2: every symbol of the encoding is in the custom alphabet *)
Lemma b32_enc_in_alph al d s : custom_ok (Some al) -> bytes_ok d -> b32_enc_nopad (Some al) d = Ok s ->
  forallb (fun c => memb c al) s = true.
Proof.
  intros Ha Hd E. destruct (enc_nopad_shape d (Some al) Hd Ha) as (ds & (Hds & _) & E').
  rewrite E in E'. assert (S : s = map (sym32 al) ds) by (unfold Ok in E'; cbn in E'; congruence). subst s.
  destruct (Lemmas.Base32.eff_facts (Some al) Ha) as (_ & L & _). cbn in L.
  apply forallb_forall. intros c Hc. apply in_map_iff in Hc. destruct Hc as (dd & <- & Hd').
  apply memb_In. apply (Lemmas.Base32.sym32_in al L).
  unfold digits_ok in Hds. rewrite Forall_forall in Hds. apply Hds; exact Hd'.
Qed.

(* law 3: 20 bytes encode to 32 symbols *)
Lemma b32_enc_len20 al d s : custom_ok (Some al) -> bytes_ok d -> length d = 20%nat ->
  b32_enc_nopad (Some al) d = Ok s -> length s = 32%nat.
Proof.
  intros Ha Hd L E. destruct (enc_nopad_shape d (Some al) Hd Ha) as (ds & (Hds & p & Hp & Hlen & _) & E').
  rewrite E in E'. assert (S : s = map (sym32 al) ds) by (unfold Ok in E'; cbn in E'; congruence). subst s.
  rewrite map_length. rewrite L in Hlen. lia.
Qed.

(* a big-endian digit string whose value is small starts with zeros *)
Lemma from_be_small_prefix r (Hr : 2 <= r) k : forall ds, digits_ok r ds -> (k <= length ds)%nat ->
  from_be r ds < r ^ N.of_nat (length ds - k) -> firstn k ds = repeat 0 k.
Proof.
  induction k as [|k IH]; intros ds Hds Hk Hv; [reflexivity|].
  destruct ds as [|d t]; [simpl in Hk; lia|].
  assert (Hd : d < r) by (inversion Hds; auto).
  assert (Ht : digits_ok r t) by (inversion Hds; auto).
  (* value = d * r^|t| + from_be t *)
  assert (V : from_be r (d :: t) = from_be r t + r ^ N.of_nat (length t) * d).
  { unfold from_be. cbn [rev]. rewrite (from_le_app r Hr), rev_length. cbn [from_le]. lia. }
  rewrite V in Hv. cbn [length] in Hv. replace (S (length t) - S k)%nat with (length t - k)%nat in Hv by lia.
  assert (P : r ^ N.of_nat (length t - k) <= r ^ N.of_nat (length t)) by (apply N.pow_le_mono_r; lia).
  assert (d = 0) by nia. subst d. cbn [firstn repeat]. f_equal.
  apply IH; [exact Ht|simpl in Hk; lia|]. lia.
Qed.

(* law 4 (Nano): three zero bytes in front give four pad symbols in front *)
Lemma nano_alph_ok : custom_ok (Some nano_alphabet).
Proof.
  split; [apply nodupb_sound; vm_compute; reflexivity|].
  split; [reflexivity|]. intro H. apply memb_In in H. vm_compute in H. discriminate.
Qed.

Lemma nano_pad_law x e : bytes_ok x ->
  b32_enc_nopad (Some nano_alphabet) (nano_pad_dec ++ x) = Ok e ->
  firstn (length nano_pad_enc) e = nano_pad_enc.
Proof.
  intros Hx E.
  assert (Hb : bytes_ok (nano_pad_dec ++ x)).
  { apply bytes_ok_app; split; [vm_compute; repeat constructor|exact Hx]. }
  destruct (enc_nopad_shape _ _ Hb nano_alph_ok) as (ds & (Hds & p & Hp & Hlen & Hval) & E').
  rewrite E in E'. assert (S : e = map (sym32 nano_alphabet) ds) by (unfold Ok in E'; cbn in E'; congruence). subst e.
  change (length nano_pad_enc) with 4%nat. rewrite firstn_map.
  rewrite app_length in Hlen. change (length nano_pad_dec) with 3%nat in Hlen.
  (* 5 |ds| = 24 + 8 |x| + p with 8|x| divisible by 5 and p < 5: p = 1 and |ds| = 5 + 8|x|/5 ... we only need
     the value bound *)
  assert (Vx : be_to_int (nano_pad_dec ++ x) = be_to_int x).
  { change nano_pad_dec with (repeat 0 3). apply be_to_int_zeros. }
  rewrite Vx in Hval.
  assert (Bx : be_to_int x < 256 ^ N.of_nat (length x)).
  { unfold be_to_int, from_be. rewrite <- (rev_length x). apply (from_le_lt 256 r256). apply bytes_ok_rev; exact Hx. }
  assert (F : firstn 4 ds = repeat 0 4).
  { apply (from_be_small_prefix 32 Lemmas.Base32.r32); [exact Hds|lia|].
    rewrite Hval.
    (* 32^(|ds|-4) = 2^(5|ds| - 20) = 2^(8|x| + 4 + p) > 256^|x| * 2^p *)
    replace (32 ^ N.of_nat (length ds - 4)) with (2 ^ (5 * N.of_nat (length ds - 4))).
    2:{ change 32 with (2 ^ 5). rewrite <- N.pow_mul_r. reflexivity. }
    replace (5 * N.of_nat (length ds - 4)) with (8 * N.of_nat (length x) + p + 4) by lia.
    rewrite !N.pow_add_r. replace (2 ^ (8 * N.of_nat (length x))) with (256 ^ N.of_nat (length x)).
    2:{ change 256 with (2 ^ 8). rewrite <- N.pow_mul_r. reflexivity. }
    assert (0 < 2 ^ p) by (apply N.neq_0_lt_0, N.pow_nonzero; lia).
    change (2 ^ 4) with 16. nia. }
  rewrite F. vm_compute. reflexivity.
Qed.

(* SS58: the encoder's output decodes to (format, data) *)
Lemma ss58_rt (blake : list N -> list N) :
  (forall x, length (blake x) = 64%nat) -> (forall x, bytes_ok (blake x)) ->
  forall d f s, bytes_ok d -> ss58_enc blake d f = Ok s -> ss58_dec blake s = Ok (f, d).
Proof.
  intros H1 H2 d f s Hd E. unfold ss58_enc in E. unfold ss58_dec.
  apply (SS58Ok.ss58_accepts_iff blake H1 H2). split; assumption.
Qed.

(* ---- the Base32 / SS58 address pipelines on the concrete codecs: no codec hypothesis left ---- *)
From BU Require Import Gen.AddrConsts Model.AddrUtils Model.AddrText.
From BU Require Lemmas.AddrText.

Lemma none_ok : custom_ok None. Proof. exact I. Qed.
Lemma fil_alph_ok : custom_ok (Some fil_alphabet).
Proof.
  split; [apply nodupb_sound; vm_compute; reflexivity|].
  split; [reflexivity|]. intro H. apply memb_In in H. vm_compute in H. discriminate.
Qed.
Lemma nim_alph_ok : custom_ok (Some nim_alphabet).
Proof.
  split; [apply nodupb_sound; vm_compute; reflexivity|].
  split; [reflexivity|]. intro H. apply memb_In in H. vm_compute in H. discriminate.
Qed.

Section Inst.
  Variables sha512_256 crc16_xmodem blake2b512 : list N -> list N.
  Variable blake2b : nat -> list N -> list N.
  Variable valid_pub : N -> list N -> bool.
  Hypothesis s5_len : forall x, length (sha512_256 x) = 32%nat.
  Hypothesis s5_ok : forall x, bytes_ok (sha512_256 x).
  Hypothesis crc_len : forall x, length (crc16_xmodem x) = 2%nat.
  Hypothesis crc_ok : forall x, bytes_ok (crc16_xmodem x).
  Hypothesis b2b_len : forall n x, length (blake2b n x) = n.
  Hypothesis b2b_ok : forall n x, bytes_ok (blake2b n x).
  Hypothesis b512_len : forall x, length (blake2b512 x) = 64%nat.
  Hypothesis b512_ok : forall x, bytes_ok (blake2b512 x).

  Theorem algo_rt pub s : bytes_ok pub -> length pub = (ed25519_compr_len - 1)%nat -> valid_pub 2 pub = true ->
    algo_encode sha512_256 b32_enc_nopad pub = Ok s -> algo_decode sha512_256 valid_pub b32_enc_nopad b32_dec s = Ok pub.
  Proof.
    intros Hb Hl Hv E.
    exact (Lemmas.AddrText.algo_decode_encode sha512_256 valid_pub b32_enc_nopad b32_dec s5_len custom_ok b32_rt s5_ok
             pub s none_ok Hb E Hl Hv).
  Qed.

  Theorem xlm_rt t pub s : t < 256 -> bytes_ok pub -> length pub = (ed25519_compr_len - 1)%nat -> valid_pub 2 pub = true ->
    xlm_encode crc16_xmodem b32_enc_nopad t pub = Ok s -> xlm_decode valid_pub crc16_xmodem b32_dec t s = Ok pub.
  Proof.
    intros Ht Hb Hl Hv E.
    exact (Lemmas.AddrText.xlm_decode_encode valid_pub crc16_xmodem b32_enc_nopad b32_dec crc_len custom_ok b32_rt crc_ok
             t pub s none_ok Ht Hb E Hl Hv).
  Qed.

  Theorem fil_rt pub_u s : fil_encode blake2b b32_enc_nopad pub_u = Ok s ->
    fil_decode blake2b b32_enc_nopad b32_dec s = Ok (blake2b blake2b160_len pub_u).
  Proof.
    exact (Lemmas.AddrText.fil_decode_encode blake2b b32_enc_nopad b32_dec b2b_len custom_ok b32_rt b2b_ok pub_u s fil_alph_ok).
  Qed.

  Theorem nano_rt pub s : bytes_ok pub -> length pub = (ed25519_compr_len - 1)%nat -> valid_pub 3 pub = true ->
    nano_encode blake2b b32_enc_nopad pub = Ok s -> nano_decode blake2b valid_pub b32_dec s = Ok pub.
  Proof.
    intros Hb Hl Hv E.
    exact (Lemmas.AddrText.nano_decode_encode blake2b valid_pub b32_enc_nopad b32_dec b2b_len custom_ok b32_rt b2b_ok
             nano_pad_law pub s nano_alph_ok Hb E Hl Hv).
  Qed.

  Theorem nim_rt pub s : nim_encode blake2b b32_enc_nopad pub = Ok s ->
    nim_decode b32_dec s = Ok (firstn nim_hash_len (blake2b blake2b256_len pub)).
  Proof.
    exact (Lemmas.AddrText.nim_decode_encode blake2b b32_enc_nopad b32_dec b2b_len custom_ok b32_rt b2b_ok
             b32_enc_in_alph b32_enc_len20 pub s nim_alph_ok).
  Qed.

  Theorem substrate_rt curve fmt pub s : bytes_ok pub -> valid_pub curve pub = true ->
    substrate_encode (ss58_enc blake2b512) fmt pub = Ok s ->
    substrate_decode valid_pub (ss58_dec blake2b512) curve fmt s = Ok pub.
  Proof.
    exact (Lemmas.AddrText.substrate_decode_encode valid_pub (ss58_enc blake2b512) (ss58_dec blake2b512)
             (ss58_rt blake2b512 b512_len b512_ok) curve fmt pub s).
  Qed.
End Inst.

(* Facts about the constants and word lists regenerated from /repo (Gen/MnemConsts.v, Gen/MnemLangs.v,
   Gen/WlMnem_*.v), re-proved by the kernel on every run: a source edit that adds a duplicate word, changes a
   list length, a word count or an entropy size breaks the theorems that depend on it. *)
From Coq Require Import NArith Arith List Lia Bool.
From BU Require Import Base.Exn Base.Bytes Model.MnemWords Model.MnemText Model.ChunkMnemonic
  Model.MoneroMnemonic Lemmas.MnemWords Lemmas.MnemText Lemmas.MoneroMnemonic.
From BU Require Import Gen.MnemConsts Gen.MnemLangs Gen.WlMnem_Ev1.
Import ListNotations.
Open Scope N_scope.

Definition wl_okb (n : N) (wl : list (list N)) : bool :=
  wnodupb wl && (wl_len wl =? n) && forallb text_okb wl.

Lemma wl_okb_sound n wl : wl_okb n wl = true ->
  NoDup wl /\ wl_len wl = n /\ forallb text_okb wl = true.
Proof.
  unfold wl_okb. rewrite !andb_true_iff, N.eqb_eq. intros [[A B] C].
  split; [apply wnodupb_sound; assumption|]. tauto.
Qed.

(* ---- Monero ---- *)
Lemma xmr_n_pos : 0 < xmr_words_num.
Proof. reflexivity. Qed.

(* 1626^3 > 2^32: three words carry a 4-byte chunk *)
Lemma xmr_n_cube : chunk_limit <= xmr_words_num * xmr_words_num * xmr_words_num.
Proof. vm_compute. discriminate. Qed.

Lemma xmr_langs_okb : forallb (fun L => wl_okb xmr_words_num (fst L)) xmr_langs = true.
Proof. vm_compute. reflexivity. Qed.

Lemma xmr_langs_ok : Forall (lang_ok xmr_words_num) xmr_langs.
Proof.
  apply Forall_forall. intros L HL. pose proof xmr_langs_okb as H. rewrite forallb_forall in H.
  apply wl_okb_sound. apply H. assumption.
Qed.

Lemma xmr_langs_count : length xmr_langs = 10%nat.
Proof. reflexivity. Qed.

Lemma xmr_ent_spec b :
  valid_entropy_len xmr_entropy_bit_lens b = true <-> (length b = 16 \/ length b = 32)%nat.
Proof.
  unfold valid_entropy_len, xmr_entropy_bit_lens. cbn [memb].
  rewrite !orb_true_iff, !N.eqb_eq. lia.
Qed.

Lemma xmr_nums_spec k : memb (N.of_nat k) xmr_word_nums = true <-> cnt_ok k.
Proof.
  unfold xmr_word_nums, cnt_ok. cbn [memb]. rewrite !orb_true_iff, !N.eqb_eq. lia.
Qed.

Lemma xmr_chk_spec k : memb (N.of_nat k) xmr_word_nums_chk = true <-> cnt_chk k.
Proof.
  unfold xmr_word_nums_chk, cnt_chk. cbn [memb]. rewrite !orb_true_iff, !N.eqb_eq. lia.
Qed.

(* ---- Electrum v1 ---- *)
Lemma ev1_wl_okb : wl_okb ev1_words_num wl_ev1 = true.
Proof. vm_compute. reflexivity. Qed.

Lemma ev1_n_cube : chunk_limit <= ev1_words_num * ev1_words_num * ev1_words_num.
Proof. vm_compute. discriminate. Qed.

Lemma ev1_nums_eq : ev1_word_nums = [12]. Proof. reflexivity. Qed.
Lemma ev1_ent_eq : ev1_entropy_bit_lens = [128]. Proof. reflexivity. Qed.
Lemma ev1_wl_pos : 0 < wl_len wl_ev1.
Proof. rewrite (proj1 (proj2 (wl_okb_sound _ _ ev1_wl_okb))). reflexivity. Qed.
Lemma ev1_wl_cube : chunk_limit <= wl_len wl_ev1 * wl_len wl_ev1 * wl_len wl_ev1.
Proof. rewrite (proj1 (proj2 (wl_okb_sound _ _ ev1_wl_okb))). exact ev1_n_cube. Qed.
Lemma ev1_wl_nodup : NoDup wl_ev1.
Proof. exact (proj1 (wl_okb_sound _ _ ev1_wl_okb)). Qed.

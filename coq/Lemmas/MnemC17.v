(* The C17 statements instantiated at the constants and word lists regenerated from /repo.
   Props/C17.v states them and refers here. *)
From Coq Require Import NArith Arith List Lia Bool.
From BU Require Import Base.Exn Base.Bytes Model.MnemWords Model.MnemText Model.ChunkMnemonic
  Model.MoneroMnemonic.
From BU Require Import Lemmas.MnemWords Lemmas.MnemText Lemmas.ChunkMnemonic Lemmas.MoneroMnemonic
  Lemmas.MnemConstsOk Lemmas.MnemWitness.
From BU Require Import Gen.MnemConsts Gen.MnemLangs Gen.WlMnem_Ev1.
Import ListNotations.
Open Scope N_scope.

(* every list the chunk codec is used with: the ten Monero lists and the Electrum v1 list *)
Definition chunk_lists : list (list (list N)) := map (@fst _ _) xmr_langs ++ [wl_ev1].

Lemma chunk_list_ok wl : In wl chunk_lists ->
  NoDup wl /\ wl_len wl = xmr_words_num.
Proof.
  unfold chunk_lists. rewrite in_app_iff, in_map_iff. intros [(L & <- & HL)|[<-|[]]].
  - pose proof xmr_langs_ok as H. rewrite Forall_forall in H. destruct (H L HL) as (A & B & _). auto.
  - destruct (wl_okb_sound _ _ ev1_wl_okb) as (A & B & _). auto.
Qed.

Section C17Chunk.
  Variable wl : list (list N).
  Hypothesis Hwl : In wl chunk_lists.

  Lemma c17_chunk_dec_enc e x : bytes_ok x -> length x = 4%nat ->
    exists a b c, bytes_chunk_to_words wl e x = Ok [a; b; c] /\
                  words_to_chunk wl e a b c = Ok x /\ words_to_chunk_current wl e a b c = Ok x.
  Proof.
    intros Hx Hl. destruct (chunk_list_ok wl Hwl) as [Hnd Hlen].
    assert (Hpos : 0 < wl_len wl) by (rewrite Hlen; reflexivity).
    destruct (b2w_total wl Hnd Hpos e x) as (a & b & c & E & _).
    destruct (w2c_b2w wl Hnd Hpos e x _ ltac:(rewrite Hlen; exact xmr_n_cube) Hx Hl E) as (a' & b' & c' & Q & W1 & W2).
    inversion Q; subst. exists a', b', c'. auto.
  Qed.

  Lemma c17_chunk_canonical e a b c x : words_to_chunk wl e a b c = Ok x ->
    bytes_ok x /\ length x = 4%nat /\ bytes_chunk_to_words wl e x = Ok [a; b; c].
  Proof.
    destruct (chunk_list_ok wl Hwl) as [Hnd Hlen].
    apply b2w_w2c. rewrite Hlen; reflexivity.
  Qed.

  (* the code as it stands: total on list words, 4 bytes exactly below 2^32 *)
  Lemma c17_chunk_current e a b c :
    (In a wl /\ In b wl /\ In c wl <-> exists x, words_to_chunk_current wl e a b c = Ok x) /\
    (forall x, words_to_chunk_current wl e a b c = Ok x ->
       exists v, words_packed wl a b c = Ok v /\ bytes_to_int e x = v /\
                 (length x = 4%nat <-> v < chunk_limit) /\ (4 <= length x)%nat).
  Proof.
    destruct (chunk_list_ok wl Hwl) as [Hnd Hlen].
    assert (Hpos : 0 < wl_len wl) by (rewrite Hlen; reflexivity).
    split; [symmetry; apply w2c_current_ok_iff; assumption|].
    intros x H. destruct (proj1 (w2c_current_ok_iff wl Hpos e a b c) (ex_intro _ x H)) as (A & B & C).
    destruct (words_packed_total wl a b c A B C) as [v P]. exists v. split; [assumption|].
    destruct (N.lt_ge_cases v chunk_limit) as [L|L].
    - rewrite (w2c_current_small _ _ _ _ _ _ P L) in H.
      destruct (b2w_w2c wl Hpos e a b c x H) as (_ & Len & _).
      unfold words_to_chunk in H. rewrite P in H. simpl in H.
      destruct (N.ltb_spec v chunk_limit); [|lia]. apply int_to_bytes_fixed_ok in H.
      split; [tauto|]. unfold chunk_byte_len in Len. split; [tauto|lia].
    - destruct (w2c_current_big wl e _ _ _ _ P L) as (r & H' & Hl & Hv & _).
      rewrite H in H'. inversion H'; subst r. split; [assumption|]. split; [|lia].
      split; intros; lia.
  Qed.
End C17Chunk.

Lemma c17_packed_chunk x w1 w2 w3 : x < chunk_limit ->
  chunk_to_idx xmr_words_num x = (w1, w2, w3) -> packed xmr_words_num w1 w2 w3 = x.
Proof.
  intros H. apply (packed_chunk _ xmr_n_pos). pose proof xmr_n_cube. lia.
Qed.

Lemma c17_chunk_packed w1 w2 w3 :
  w1 < xmr_words_num -> w2 < xmr_words_num -> w3 < xmr_words_num ->
  chunk_to_idx xmr_words_num (packed xmr_words_num w1 w2 w3) = (w1, w2, w3).
Proof. apply (chunk_packed _ xmr_n_pos). Qed.

(* ---------------------------------------------------------------- Monero *)
Definition xmr_encode := MoneroMnemonic.encode xmr_langs xmr_entropy_bit_lens.
Definition xmr_decode := MoneroMnemonic.decode xmr_langs xmr_word_nums xmr_word_nums_chk words_to_chunk.
Definition xmr_decode_current :=
  MoneroMnemonic.decode xmr_langs xmr_word_nums xmr_word_nums_chk words_to_chunk_current.
Definition xmr_decoder (canon : bool) := if canon then xmr_decode else xmr_decode_current.

Definition xmr_dec_enc :=
  dec_enc xmr_langs xmr_word_nums xmr_word_nums_chk xmr_entropy_bit_lens xmr_words_num
    xmr_n_pos xmr_n_cube xmr_langs_ok xmr_ent_spec xmr_nums_spec xmr_chk_spec.
Definition xmr_dec_enc_auto :=
  dec_enc_auto xmr_langs xmr_word_nums xmr_word_nums_chk xmr_entropy_bit_lens xmr_words_num
    xmr_n_pos xmr_n_cube xmr_langs_ok xmr_ent_spec xmr_nums_spec xmr_chk_spec.
Definition xmr_accepts_iff :=
  accepts_iff xmr_langs xmr_word_nums xmr_word_nums_chk xmr_words_num
    xmr_n_pos xmr_n_cube xmr_langs_ok xmr_nums_spec xmr_chk_spec.
Definition xmr_accepted_is_canonical :=
  accepted_is_canonical xmr_langs xmr_word_nums xmr_word_nums_chk xmr_entropy_bit_lens xmr_words_num
    xmr_n_pos xmr_n_cube xmr_langs_ok xmr_ent_spec xmr_nums_spec xmr_chk_spec.
Definition xmr_decode_err_family :=
  decode_err_family xmr_langs xmr_word_nums xmr_word_nums_chk xmr_words_num
    xmr_n_pos xmr_n_cube xmr_langs_ok xmr_nums_spec xmr_chk_spec.

(* ---------------------------------------------------------------- Algorand *)
From BU Require Import Model.AlgorandMnemonic Lemmas.AlgorandMnemonic Lemmas.MnemConstsOkB39.

Definition algo_encode sha := AlgorandMnemonic.encode algo_wl algo_cklen algo_entropy_bit_lens algo_word_bits sha.
Definition algo_decode sha := AlgorandMnemonic.decode algo_wl algo_word_nums algo_cklen algo_word_bits sha.
Definition algo_checksum_idx sha := AlgorandMnemonic.checksum_idx algo_cklen algo_word_bits sha.

Section C17Algorand.
  Variable sha : list N -> list N.
  Hypothesis sha_len : forall x, length (sha x) = 32%nat.
  Hypothesis sha_ok : forall x, bytes_ok (sha x).

  Definition algo_dec_enc :=
    AlgorandMnemonic.dec_enc algo_wl algo_word_nums algo_cklen algo_entropy_bit_lens algo_word_bits sha
      (proj1 algo_wl_ok) (proj2 algo_wl_ok) algo_nums_eq algo_cklen_eq algo_ent_eq algo_bits_eq sha_len sha_ok.
  Definition algo_accepted_is_canonical :=
    AlgorandMnemonic.accepted_is_canonical algo_wl algo_word_nums algo_cklen algo_entropy_bit_lens algo_word_bits sha
      (proj1 algo_wl_ok) (proj2 algo_wl_ok) algo_nums_eq algo_cklen_eq algo_ent_eq algo_bits_eq sha_len sha_ok.
  Definition algo_accepts_iff :=
    AlgorandMnemonic.accepts_iff algo_wl algo_word_nums algo_cklen algo_entropy_bit_lens algo_word_bits sha
      (proj1 algo_wl_ok) (proj2 algo_wl_ok) algo_nums_eq algo_cklen_eq algo_ent_eq algo_bits_eq sha_len sha_ok.
  Definition algo_decode_err_family :=
    AlgorandMnemonic.decode_err_family algo_wl algo_word_nums algo_cklen algo_entropy_bit_lens algo_word_bits sha
      (proj1 algo_wl_ok) (proj2 algo_wl_ok) algo_nums_eq algo_cklen_eq algo_ent_eq algo_bits_eq sha_len sha_ok.
  Definition algo_f9_family :=
    AlgorandMnemonic.f9_family algo_wl algo_word_nums algo_cklen algo_entropy_bit_lens algo_word_bits sha
      (proj1 algo_wl_ok) (proj2 algo_wl_ok) algo_nums_eq algo_cklen_eq algo_ent_eq algo_bits_eq sha_len sha_ok.

  (* a phrase the code as it stands accepts although it is not the encoding of what it decodes to *)
  Lemma algo_canonical_refuted :
    exists ws b, algo_decode sha false ws = Ok b /\ algo_encode sha b <> Ok ws /\
                 algo_decode sha true ws = Err ValueError.
  Proof.
    destruct (algo_f9_family (repeat 0 32) 1) as (pre & w23 & wc & i23 & w23' & E & _ & _ & _ & _ & Ne & D0 & D1).
    - apply bytes_ok_repeat0.
    - reflexivity.
    - lia.
    - exists (pre ++ [w23'; wc]), (repeat 0 32). split; [exact D0|]. split; [|exact D1].
      unfold algo_encode. rewrite E. intros Q. inversion Q as [Q']. apply app_inv_head in Q'.
      inversion Q'. congruence.
  Qed.
End C17Algorand.

(* ---------------------------------------------------------------- Electrum v1 *)
From BU Require Import Model.ElectrumV1Mnemonic Lemmas.ElectrumV1Mnemonic.

Definition ev1_encode := ElectrumV1Mnemonic.encode wl_ev1 ev1_entropy_bit_lens.
Definition ev1_decode := ElectrumV1Mnemonic.decode wl_ev1 ev1_word_nums words_to_chunk.
Definition ev1_decode_current := ElectrumV1Mnemonic.decode wl_ev1 ev1_word_nums words_to_chunk_current.

Definition ev1_dec_enc :=
  ElectrumV1Mnemonic.dec_enc wl_ev1 ev1_word_nums ev1_entropy_bit_lens
    ev1_wl_nodup ev1_wl_pos ev1_wl_cube ev1_nums_eq ev1_ent_eq.
Definition ev1_accepts_iff :=
  ElectrumV1Mnemonic.accepts_iff wl_ev1 ev1_word_nums ev1_entropy_bit_lens
    ev1_wl_nodup ev1_wl_pos ev1_wl_cube ev1_nums_eq ev1_ent_eq.
Definition ev1_accepted_is_canonical :=
  ElectrumV1Mnemonic.accepted_is_canonical wl_ev1 ev1_word_nums ev1_entropy_bit_lens
    ev1_wl_nodup ev1_wl_pos ev1_wl_cube ev1_nums_eq ev1_ent_eq.
Definition ev1_decode_err_family :=
  ElectrumV1Mnemonic.decode_err_family wl_ev1 ev1_word_nums ev1_entropy_bit_lens
    ev1_wl_nodup ev1_wl_pos ev1_wl_cube ev1_nums_eq ev1_ent_eq.

(* ---------------------------------------------------------------- Electrum v2 *)
From BU Require Import Base.Radix Model.ElectrumV2Mnemonic Lemmas.ElectrumV2Mnemonic Lemmas.MnemConstsOkEv2.
From BU Require Import Gen.WlMnem_B39_english.

Definition ev2_gate_current := ElectrumV2Mnemonic.gate_current ev2_word_bit_len ev2_entropy_bit_lens.
Definition ev2_gate_conformant := ElectrumV2Mnemonic.gate_conformant ev2_word_bit_len ev2_entropy_bit_lens.
(* ElectrumV1MnemonicValidator().IsValid through the conformant / current Electrum v1 decoder *)
Definition ev1_valid (conformant : bool) (ws : list (list N)) : bool :=
  match (if conformant then ev1_decode else ev1_decode_current) ws with inl _ => true | inr _ => false end.

Lemma ev2_enc_langs_ok wl : In wl ev2_langs -> NoDup wl /\ wl_len wl = 2048.
Proof. intros I. exact (b39_langs_ok wl (ev2_langs_in_b39 wl I)). Qed.

Lemma ev2_b39_langs_ok wl : In wl b39_langs -> NoDup wl /\ wl_len wl = 2048.
Proof. exact (b39_langs_ok wl). Qed.

Section C17Ev2.
  Variable hmac : list N -> list N -> list N.
  Variable bip39_valid : list (list N) -> bool.
  Variable ev1v : list (list N) -> bool.

  Definition ev2_is_valid :=
    ElectrumV2Mnemonic.is_valid_mnemonic ev2_type_prefixes ev2_hmac_key hmac bip39_valid ev1v.
  Definition ev2_encode gate :=
    ElectrumV2Mnemonic.encode ev2_langs ev2_type_prefixes ev2_hmac_key hmac bip39_valid ev1v gate.
  Definition ev2_decode :=
    ElectrumV2Mnemonic.decode b39_langs ev2_langs ev2_word_nums ev2_type_prefixes ev2_hmac_key hmac bip39_valid ev1v.
  Definition ev2_from_entropy gate :=
    ElectrumV2Mnemonic.from_entropy ev2_langs ev2_type_prefixes ev2_hmac_key ev2_max_attempts hmac bip39_valid ev1v gate.
  Definition ev2_attempts gate :=
    ElectrumV2Mnemonic.attempts ev2_langs ev2_type_prefixes ev2_hmac_key ev2_max_attempts hmac bip39_valid ev1v gate.

  Definition ev2_dec_enc :=
    ElectrumV2Mnemonic.dec_enc b39_langs ev2_langs ev2_word_nums ev2_word_bit_len ev2_type_prefixes ev2_hmac_key
      ev2_entropy_bit_lens ev2_max_attempts hmac bip39_valid ev1v
      ev2_nums_eq ev2_wbl_eq ev2_ent_eq ev2_enc_langs_ok ev2_b39_langs_ok ev2_langs_first.
  Definition ev2_gate_band_words :=
    ElectrumV2Mnemonic.gate_band_words b39_langs ev2_langs ev2_word_nums ev2_word_bit_len ev2_type_prefixes ev2_hmac_key
      ev2_entropy_bit_lens ev2_max_attempts hmac bip39_valid ev1v
      ev2_nums_eq ev2_wbl_eq ev2_ent_eq ev2_enc_langs_ok ev2_b39_langs_ok ev2_langs_first.
  Definition ev2_accepted_partial :=
    ElectrumV2Mnemonic.accepted_partial b39_langs ev2_langs ev2_word_nums ev2_word_bit_len ev2_type_prefixes ev2_hmac_key
      ev2_entropy_bit_lens ev2_max_attempts hmac bip39_valid ev1v
      ev2_nums_eq ev2_wbl_eq ev2_ent_eq ev2_enc_langs_ok ev2_b39_langs_ok ev2_langs_first.
  Definition ev2_top_zero_not_canonical :=
    ElectrumV2Mnemonic.top_zero_not_canonical b39_langs ev2_langs ev2_word_nums ev2_word_bit_len ev2_type_prefixes ev2_hmac_key
      ev2_entropy_bit_lens ev2_max_attempts hmac bip39_valid ev1v
      ev2_nums_eq ev2_wbl_eq ev2_ent_eq ev2_enc_langs_ok ev2_b39_langs_ok ev2_langs_first.
  Definition ev2_accepts_iff :=
    ElectrumV2Mnemonic.accepts_iff b39_langs ev2_langs ev2_word_nums ev2_word_bit_len ev2_type_prefixes ev2_hmac_key
      ev2_entropy_bit_lens ev2_max_attempts hmac bip39_valid ev1v
      ev2_nums_eq ev2_wbl_eq ev2_ent_eq ev2_enc_langs_ok ev2_b39_langs_ok ev2_langs_first.
  Definition ev2_attempts_spec :=
    ElectrumV2Mnemonic.attempts_spec b39_langs ev2_langs ev2_word_nums ev2_word_bit_len ev2_type_prefixes ev2_hmac_key
      ev2_entropy_bit_lens ev2_max_attempts hmac bip39_valid ev1v
      ev2_nums_eq ev2_wbl_eq ev2_ent_eq ev2_enc_langs_ok ev2_b39_langs_ok ev2_langs_first.
End C17Ev2.

Definition ev2_gate_current_iff := gate_current_iff ev2_word_bit_len ev2_entropy_bit_lens ev2_wbl_eq ev2_ent_eq.
Definition ev2_gate_conformant_iff := gate_conformant_iff ev2_word_bit_len ev2_entropy_bit_lens ev2_wbl_eq ev2_ent_eq.
Definition ev2_gate_diff := gate_diff ev2_word_bit_len ev2_entropy_bit_lens ev2_wbl_eq ev2_ent_eq.

Lemma ev2_gate_witness :
  ev2_gate_current (2 ^ 132) = true /\ ev2_gate_conformant (2 ^ 132) = false /\
  length (to_le 2048 (2 ^ 132)) = 13%nat /\ be_to_int (16 :: repeat 0 16) = 2 ^ 132.
Proof. repeat split; vm_compute; reflexivity. Qed.

(* big-endian bytes without a leading zero byte are what ToBytes gives back *)
Lemma int_to_be_auto_stripped b x t : bytes_ok b -> b = x :: t -> x <> 0 -> int_to_be_auto (be_to_int b) = b.
Proof.
  intros Hb E Hx.
  assert (Hs : forall y u, b = y :: u -> y <> 0) by (intros y u E'; rewrite E in E'; inversion E'; subst; assumption).
  pose proof (int_to_be_min_of_stripped b Hb Hs) as M. unfold int_to_be_min, to_be in M.
  unfold int_to_be_auto, int_to_be_fixed, int_to_le_fixed, get_bytes_number.
  assert (Hl : (1 <= length (to_le 256 (be_to_int b)))%nat).
  { destruct (to_le 256 (be_to_int b)) as [|d ds] eqn:Q; [|simpl; lia].
    simpl in M. rewrite <- M in E. discriminate. }
  replace (Nat.max 1 (length (to_le 256 (be_to_int b)))) with (length (to_le 256 (be_to_int b))) by lia.
  rewrite Nat.leb_refl, Nat.sub_diag. simpl. rewrite app_nil_r. exact M.
Qed.

(* the premises of the Electrum v2 canonicity statements are satisfiable: with an HMAC whose hex digest starts
   with "01" every phrase is of the standard type *)
Lemma ev2_top_zero_example :
  let hmac := fun (_ _ : list N) => [1] in
  let none := fun (_ : list (list N)) => false in
  let zoo := nth 2047 wl_b39_english [] in
  let abandon := nth 0 wl_b39_english [] in
  exists b, ev2_decode hmac none none (Some 0%nat) (Some 1%nat) (repeat zoo 11 ++ [abandon]) = Ok b /\
            word_idx wl_b39_english (last (repeat zoo 11 ++ [abandon]) []) = Ok 0 /\
            nth_error ev2_langs 1 = Some wl_b39_english.
Proof. cbv zeta. eexists. split; [vm_compute; reflexivity|]. split; [vm_compute; reflexivity|reflexivity]. Qed.

(* what ElectrumV2MnemonicGenerator.FromEntropy returns (conformant gate) decodes to entropy + k, k < MAX_ATTEMPTS *)
Lemma ev2_generated_decodes hmac b39v ev1v fuel ty lang b ws :
  ev2_from_entropy hmac b39v ev1v ev2_gate_conformant fuel ty lang b = Ok ws ->
  exists k, k < ev2_max_attempts /\ (length ws = 12 \/ length ws = 24)%nat /\
    forall dty dlang, dty = Some ty \/ dty = None -> dlang = Some lang \/ dlang = None ->
      ev2_decode hmac b39v ev1v dty dlang ws = Ok (int_to_be_auto (be_to_int b + k)).
Proof.
  unfold ev2_from_entropy, ElectrumV2Mnemonic.from_entropy.
  destruct (nth_error ev2_type_prefixes ty); simpl; [|discriminate].
  destruct (nth_error ev2_langs lang); simpl; [|discriminate].
  destruct (ev2_gate_conformant (be_to_int b)); [|discriminate]. intros H.
  destruct (ev2_attempts_spec hmac b39v ev1v ev2_gate_conformant ty lang (be_to_int b) fuel 0 ws H) as (k & Lk & E & _).
  rewrite N.add_0_l in *. exists k. split; [assumption|].
  pose proof (ev2_dec_enc hmac b39v ev1v ty lang _ ws (Some ty) (Some lang) E (or_introl eq_refl) (or_introl eq_refl)) as [Hc _].
  split; [exact Hc|]. intros dty dlang Ht Hl.
  destruct (ev2_dec_enc hmac b39v ev1v ty lang _ ws dty dlang E Ht Hl) as [_ D].
  rewrite be_to_int_auto in D. exact D.
Qed.

(* ---------------------------------------------------------------- statements in the explicit form of Props/C17.v *)
From BU Require Import Gen.WlMnem_Xmr_english.
Lemma c17_chunk_canonical_refuted :
  exists wl e a b c x, In wl chunk_lists /\ In a wl /\ In b wl /\ In c wl /\
    words_to_chunk_current wl e a b c = Ok x /\ length x = 5%nat /\
    words_to_chunk wl e a b c = Err ValueError.
Proof.
  exists wl_xmr_english, Little, (nth 0 wl_xmr_english []), (nth 0 wl_xmr_english []),
         (nth 1625 wl_xmr_english []), [4; 80; 20; 0; 1].
  pose proof chunk_refuted_witness as W. cbv zeta in W.
  repeat split; try tauto. right; right; left; reflexivity.
Qed.

Lemma xmr_accepts_iff_explicit : forall conformant lang L ws, nth_error xmr_langs lang = Some L ->
  ((exists b, xmr_decoder conformant (Some lang) ws = Ok b) <->
   (In (N.of_nat (length ws)) xmr_word_nums /\
    Forall (fun w => In w (fst L)) ws /\
    (In (N.of_nat (length ws)) xmr_word_nums_chk ->
       compute_checksum (snd L) (removelast ws) = Ok (last ws [])) /\
    (conformant = true ->
       Forall (fun g => match g with
                        | [a; b; c] => exists v, words_packed (fst L) a b c = Ok v /\ v < 2 ^ 32
                        | _ => False end)
              (groups 3 (Nat.div (length ws) 3) ws)))).
Proof.
  intros conformant lang L ws HL.
  pose proof (xmr_accepts_iff conformant lang L ws HL) as H.
  unfold BU.Lemmas.MoneroMnemonic.accepts_spec in H.
  rewrite <- (xmr_nums_spec (length ws)), <- (xmr_chk_spec (length ws)) in H.
  rewrite <- !(memb_In (N.of_nat (length ws))).
  destruct conformant; exact H.
Qed.

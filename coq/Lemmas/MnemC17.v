(* The C17 statements instantiated at the constants and word lists regenerated from /repo.
   Props/C17.v states them and refers here. *)
From Coq Require Import NArith Arith List Lia Bool.
From BU Require Import Base.Exn Base.Bytes Model.MnemWords Model.MnemText Model.ChunkMnemonic
  Model.MoneroMnemonic.
From BU Require Import Lemmas.MnemWords Lemmas.MnemText Lemmas.ChunkMnemonic Lemmas.MoneroMnemonic
  Lemmas.MnemConstsOk Lemmas.MnemWitness.
From BU Require Import Gen.MnemConsts Gen.MnemLangs Gen.WlMnem_Ev1.
Import ListNotations.
Open Scope N_scope.

(* every list the chunk codec is used with: the ten Monero lists and the Electrum v1 list *)
Definition chunk_lists : list (list (list N)) := map (@fst _ _) xmr_langs ++ [wl_ev1].

Lemma chunk_list_ok wl : In wl chunk_lists ->
  NoDup wl /\ wl_len wl = xmr_words_num.
Proof.
  unfold chunk_lists. rewrite in_app_iff, in_map_iff. intros [(L & <- & HL)|[<-|[]]].
  - pose proof xmr_langs_ok as H. rewrite Forall_forall in H. destruct (H L HL) as (A & B & _). auto.
  - destruct (wl_okb_sound _ _ ev1_wl_okb) as (A & B & _). auto.
Qed.

Section C17Chunk.
  Variable wl : list (list N).
  Hypothesis Hwl : In wl chunk_lists.

  Lemma c17_chunk_dec_enc e x : bytes_ok x -> length x = 4%nat ->
    exists a b c, bytes_chunk_to_words wl e x = Ok [a; b; c] /\
                  words_to_chunk wl e a b c = Ok x /\ words_to_chunk_current wl e a b c = Ok x.
  Proof.
    intros Hx Hl. destruct (chunk_list_ok wl Hwl) as [Hnd Hlen].
    assert (Hpos : 0 < wl_len wl) by (rewrite Hlen; reflexivity).
    destruct (b2w_total wl Hnd Hpos e x) as (a & b & c & E & _).
    destruct (w2c_b2w wl Hnd Hpos e x _ ltac:(rewrite Hlen; exact xmr_n_cube) Hx Hl E) as (a' & b' & c' & Q & W1 & W2).
    inversion Q; subst. exists a', b', c'. auto.
  Qed.

  Lemma c17_chunk_canonical e a b c x : words_to_chunk wl e a b c = Ok x ->
    bytes_ok x /\ length x = 4%nat /\ bytes_chunk_to_words wl e x = Ok [a; b; c].
  Proof.
    destruct (chunk_list_ok wl Hwl) as [Hnd Hlen].
    apply b2w_w2c. rewrite Hlen; reflexivity.
  Qed.

  (* the code as it stands: total on list words, 4 bytes exactly below 2^32 *)
  Lemma c17_chunk_current e a b c :
    (In a wl /\ In b wl /\ In c wl <-> exists x, words_to_chunk_current wl e a b c = Ok x) /\
    (forall x, words_to_chunk_current wl e a b c = Ok x ->
       exists v, words_packed wl a b c = Ok v /\ bytes_to_int e x = v /\
                 (length x = 4%nat <-> v < chunk_limit) /\ (4 <= length x)%nat).
  Proof.
    destruct (chunk_list_ok wl Hwl) as [Hnd Hlen].
    assert (Hpos : 0 < wl_len wl) by (rewrite Hlen; reflexivity).
    split; [symmetry; apply w2c_current_ok_iff; assumption|].
    intros x H. destruct (proj1 (w2c_current_ok_iff wl Hpos e a b c) (ex_intro _ x H)) as (A & B & C).
    destruct (words_packed_total wl a b c A B C) as [v P]. exists v. split; [assumption|].
    destruct (N.lt_ge_cases v chunk_limit) as [L|L].
    - rewrite (w2c_current_small _ _ _ _ _ _ P L) in H.
      destruct (b2w_w2c wl Hpos e a b c x H) as (_ & Len & _).
      unfold words_to_chunk in H. rewrite P in H. simpl in H.
      destruct (N.ltb_spec v chunk_limit); [|lia]. apply int_to_bytes_fixed_ok in H.
      split; [tauto|]. unfold chunk_byte_len in Len. split; [tauto|lia].
    - destruct (w2c_current_big wl e _ _ _ _ P L) as (r & H' & Hl & Hv & _).
      rewrite H in H'. inversion H'; subst r. split; [assumption|]. split; [|lia].
      split; intros; lia.
  Qed.
End C17Chunk.

Lemma c17_packed_chunk x w1 w2 w3 : x < chunk_limit ->
  chunk_to_idx xmr_words_num x = (w1, w2, w3) -> packed xmr_words_num w1 w2 w3 = x.
Proof.
  intros H. apply (packed_chunk _ xmr_n_pos). pose proof xmr_n_cube. lia.
Qed.

Lemma c17_chunk_packed w1 w2 w3 :
  w1 < xmr_words_num -> w2 < xmr_words_num -> w3 < xmr_words_num ->
  chunk_to_idx xmr_words_num (packed xmr_words_num w1 w2 w3) = (w1, w2, w3).
Proof. apply (chunk_packed _ xmr_n_pos). Qed.

(* ---------------------------------------------------------------- Monero *)
Definition xmr_encode := MoneroMnemonic.encode xmr_langs xmr_entropy_bit_lens.
Definition xmr_decode := MoneroMnemonic.decode xmr_langs xmr_word_nums xmr_word_nums_chk words_to_chunk.
Definition xmr_decode_current :=
  MoneroMnemonic.decode xmr_langs xmr_word_nums xmr_word_nums_chk words_to_chunk_current.
Definition xmr_decoder (canon : bool) := if canon then xmr_decode else xmr_decode_current.

Definition xmr_dec_enc :=
  dec_enc xmr_langs xmr_word_nums xmr_word_nums_chk xmr_entropy_bit_lens xmr_words_num
    xmr_n_pos xmr_n_cube xmr_langs_ok xmr_ent_spec xmr_nums_spec xmr_chk_spec.
Definition xmr_dec_enc_auto :=
  dec_enc_auto xmr_langs xmr_word_nums xmr_word_nums_chk xmr_entropy_bit_lens xmr_words_num
    xmr_n_pos xmr_n_cube xmr_langs_ok xmr_ent_spec xmr_nums_spec xmr_chk_spec.
Definition xmr_accepts_iff :=
  accepts_iff xmr_langs xmr_word_nums xmr_word_nums_chk xmr_words_num
    xmr_n_pos xmr_n_cube xmr_langs_ok xmr_nums_spec xmr_chk_spec.
Definition xmr_accepted_is_canonical :=
  accepted_is_canonical xmr_langs xmr_word_nums xmr_word_nums_chk xmr_entropy_bit_lens xmr_words_num
    xmr_n_pos xmr_n_cube xmr_langs_ok xmr_ent_spec xmr_nums_spec xmr_chk_spec.
Definition xmr_decode_err_family :=
  decode_err_family xmr_langs xmr_word_nums xmr_word_nums_chk xmr_words_num
    xmr_n_pos xmr_n_cube xmr_langs_ok xmr_nums_spec xmr_chk_spec.

(* ---------------------------------------------------------------- Algorand *)
From BU Require Import Model.AlgorandMnemonic Lemmas.AlgorandMnemonic Lemmas.MnemConstsOkB39.

Definition algo_encode sha := AlgorandMnemonic.encode algo_wl algo_cklen algo_entropy_bit_lens algo_word_bits sha.
Definition algo_decode sha := AlgorandMnemonic.decode algo_wl algo_word_nums algo_cklen algo_word_bits sha.
Definition algo_checksum_idx sha := AlgorandMnemonic.checksum_idx algo_cklen algo_word_bits sha.

Section C17Algorand.
  Variable sha : list N -> list N.
  Hypothesis sha_len : forall x, length (sha x) = 32%nat.
  Hypothesis sha_ok : forall x, bytes_ok (sha x).

  Definition algo_dec_enc :=
    AlgorandMnemonic.dec_enc algo_wl algo_word_nums algo_cklen algo_entropy_bit_lens algo_word_bits sha
      (proj1 algo_wl_ok) (proj2 algo_wl_ok) algo_nums_eq algo_cklen_eq algo_ent_eq algo_bits_eq sha_len sha_ok.
  Definition algo_accepted_is_canonical :=
    AlgorandMnemonic.accepted_is_canonical algo_wl algo_word_nums algo_cklen algo_entropy_bit_lens algo_word_bits sha
      (proj1 algo_wl_ok) (proj2 algo_wl_ok) algo_nums_eq algo_cklen_eq algo_ent_eq algo_bits_eq sha_len sha_ok.
  Definition algo_accepts_iff :=
    AlgorandMnemonic.accepts_iff algo_wl algo_word_nums algo_cklen algo_entropy_bit_lens algo_word_bits sha
      (proj1 algo_wl_ok) (proj2 algo_wl_ok) algo_nums_eq algo_cklen_eq algo_ent_eq algo_bits_eq sha_len sha_ok.
  Definition algo_decode_err_family :=
    AlgorandMnemonic.decode_err_family algo_wl algo_word_nums algo_cklen algo_entropy_bit_lens algo_word_bits sha
      (proj1 algo_wl_ok) (proj2 algo_wl_ok) algo_nums_eq algo_cklen_eq algo_ent_eq algo_bits_eq sha_len sha_ok.
  Definition algo_f9_family :=
    AlgorandMnemonic.f9_family algo_wl algo_word_nums algo_cklen algo_entropy_bit_lens algo_word_bits sha
      (proj1 algo_wl_ok) (proj2 algo_wl_ok) algo_nums_eq algo_cklen_eq algo_ent_eq algo_bits_eq sha_len sha_ok.

  (* a phrase the code as it stands accepts although it is not the encoding of what it decodes to *)
  Lemma algo_canonical_refuted :
    exists ws b, algo_decode sha false ws = Ok b /\ algo_encode sha b <> Ok ws /\
                 algo_decode sha true ws = Err ValueError.
  Proof.
    destruct (algo_f9_family (repeat 0 32) 1) as (pre & w23 & wc & i23 & w23' & E & _ & _ & _ & _ & Ne & D0 & D1).
    - apply bytes_ok_repeat0.
    - reflexivity.
    - lia.
    - exists (pre ++ [w23'; wc]), (repeat 0 32). split; [exact D0|]. split; [|exact D1].
      unfold algo_encode. rewrite E. intros Q. inversion Q as [Q']. apply app_inv_head in Q'.
      inversion Q'. congruence.
  Qed.
End C17Algorand.

(* General helper lemmas for the C12 proofs (big-endian fixed-width integers, first_some). *)
From Coq Require Import NArith Arith List Lia Bool.
From BU Require Import Base.Exn Base.Radix Base.Bytes.
Import ListNotations.
Open Scope N_scope.

Lemma be_to_int_rev l : be_to_int (rev l) = le_to_int l.
Proof. unfold be_to_int, le_to_int, from_be. rewrite rev_involutive. reflexivity. Qed.

Lemma int_to_be_fixed_ok w v b : int_to_be_fixed w v = Ok b ->
  bytes_ok b /\ length b = w /\ be_to_int b = v.
Proof.
  unfold int_to_be_fixed. destruct (int_to_le_fixed w v) as [l|e] eqn:E; cbn [rmap]; [|discriminate].
  intros H. inversion H; subst; clear H.
  apply int_to_le_fixed_ok in E. destruct E as (B & L & V).
  split; [apply bytes_ok_rev; assumption|]. split; [rewrite rev_length; assumption|].
  rewrite be_to_int_rev. assumption.
Qed.

Lemma int_to_be_fixed_fits w v : v < 256 ^ N.of_nat w -> exists b, int_to_be_fixed w v = Ok b.
Proof.
  intros H. destruct (int_to_le_fixed_fits w v H) as [l E].
  exists (rev l). unfold int_to_be_fixed. rewrite E. reflexivity.
Qed.

Lemma be_to_int_lt b : bytes_ok b -> be_to_int b < 256 ^ N.of_nat (length b).
Proof.
  intros H. unfold be_to_int, from_be. rewrite <- (rev_length b).
  apply (from_le_lt 256 r256). apply bytes_ok_rev. assumption.
Qed.

Lemma firstn_app_exact {A} (a b : list A) n : length a = n -> firstn n (a ++ b) = a.
Proof. intros <-. rewrite firstn_app, Nat.sub_diag, firstn_all. simpl. apply app_nil_r. Qed.
Lemma skipn_app_exact {A} (a b : list A) n : length a = n -> skipn n (a ++ b) = b.
Proof. intros <-. rewrite skipn_app, Nat.sub_diag, skipn_all. reflexivity. Qed.

(* C14 no-escape lemmas: Bip32 master key from a seed (Bip32Slip10*.FromSeed and everything built on it).
   The master-key generator is a "while not valid: rehash" loop, modelled with explicit fuel; its termination for
   the real HMAC is a probabilistic fact outside any proof (DESIGN.md section 3).  The statement is therefore about
   runs that return: every outcome of the model is a value, an error of the family, or the model artefact
   OutOfFuel -- and the only error is the ValueError of a seed shorter than 16 bytes. *)
From Coq Require Import NArith Arith List Bool Lia.
From BU Require Import Base.Exn Base.Bytes Gen.DerivConsts Model.Bip32Slip10.
From BU Require Import Lemmas.NoEscape.
Import ListNotations.

(* a value, an in-family error, or out of fuel *)
Definition in_family_or_fuel {A} (r : res A) : bool :=
  match r with inr OutOfFuel => true | _ => in_family r end.

Lemma family_or_fuel_of_family {A} (r : res A) : in_family r = true -> in_family_or_fuel r = true.
Proof. destruct r as [a|e]; [auto|]. destruct e; simpl; auto. Qed.

Section MasterKey.
  Variable hmac512 : list N -> list N -> list N.
  Variable D : deriv_ops.

  Lemma master_loop_spec fuel : forall data r, master_loop hmac512 D fuel data = r ->
    r = Err OutOfFuel \/ exists kb c, r = Ok (kb, c) /\ is_ok (d_priv_of_bytes D kb) = true.
  Proof.
    induction fuel as [|f IH]; intros data r E; cbn [master_loop] in E; [left; auto|].
    destruct (is_ok (d_priv_of_bytes D (left_half (hmac512 (d_hmac_key D) data)))) eqn:V.
    - right. eexists _, _. split; [symmetry; exact E|exact V].
    - apply (IH _ _ E).
  Qed.

  (* _Bip32Slip10MstKeyGenerator.GenerateFromSeed(seed bytes) *)
  Lemma master_key_errors fuel seed e : master_key hmac512 D fuel seed = Err e -> e = ValueError \/ e = OutOfFuel.
  Proof.
    unfold master_key. destruct (slip10_seed_min_len <=? length seed)%nat; [|intros Q; inversion Q; auto].
    intros E. destruct (master_loop_spec fuel seed _ E) as [Q|(kb & c & Q & _)]; inversion Q; auto.
  Qed.

  (* Bip32Base.FromSeed(seed bytes) for every Bip32Slip10 class: the key handed to the constructor was just
     validated by the loop, so the constructor's Bip32KeyError is unreachable as well *)
  Lemma from_seed_errors fuel seed e : from_seed hmac512 D fuel seed = Err e -> e = ValueError \/ e = OutOfFuel.
  Proof.
    unfold from_seed, master_key. destruct (slip10_seed_min_len <=? length seed)%nat; [|intros Q; inversion Q; auto].
    destruct (master_loop hmac512 D fuel seed) as [[kb c]|e'] eqn:M.
    - destruct (master_loop_spec fuel seed _ M) as [Q|(kb' & c' & Q & V)]; [discriminate|].
      inversion Q; subst. cbn [bind fst snd]. unfold new_priv.
      destruct (d_priv_of_bytes D kb') as [k|x]; [|discriminate]. cbn. discriminate.
    - destruct (master_loop_spec fuel seed _ M) as [Q|(kb' & c' & Q & _)]; [|discriminate].
      cbn [bind]. intros E. inversion Q; inversion E; subst; auto.
  Qed.

  Lemma from_seed_family_or_fuel fuel seed : in_family_or_fuel (from_seed hmac512 D fuel seed) = true.
  Proof.
    destruct (from_seed hmac512 D fuel seed) as [o|e] eqn:E; [reflexivity|].
    destruct (from_seed_errors fuel seed e E) as [->| ->]; reflexivity.
  Qed.

  Lemma from_seed_short fuel seed : (length seed < slip10_seed_min_len)%nat ->
    from_seed hmac512 D fuel seed = Err ValueError.
  Proof.
    intros H. unfold from_seed, master_key.
    destruct (Nat.leb_spec slip10_seed_min_len (length seed)); [lia|reflexivity].
  Qed.
End MasterKey.

(* ------------------------------------------------------------------ ChildKey / DerivePath / FromSeedAndPath
   relative to the curve's operations: if the key constructors and the two CKD functions of the Bip32 class return a
   value, an in-family error or run out of fuel, so does every derivation built on them (the Bip32 layer itself adds
   ValueError for an index above 2^32 - 1 or an absolute path on a non-master object, and Bip32KeyError for a hardened
   child of a public-only object). *)
Lemma fof_bind {A B} (r : res A) (f : A -> res B) :
  in_family_or_fuel r = true -> (forall a, r = Ok a -> in_family_or_fuel (f a) = true) -> in_family_or_fuel (bind r f) = true.
Proof. destruct r as [a|e]; simpl; intros H K; [apply K; reflexivity|exact H]. Qed.

Lemma fof_key_error {A} (r : res A) : in_family_or_fuel r = true -> in_family_or_fuel (value_error_to_key_error r) = true.
Proof. destruct r as [a|e]; [auto|]. destruct e; simpl; auto. Qed.

Section Derive.
  Variable hmac512 : list N -> list N -> list N.
  Variable hash160 : list N -> list N.
  Variable D : deriv_ops.
  Hypothesis priv_fof : forall b, in_family_or_fuel (d_priv_of_bytes D b) = true.
  Hypothesis pub_fof : forall P, in_family_or_fuel (d_pub_check D P) = true.
  Hypothesis ckd_priv_fof : forall fuel k P c i, in_family_or_fuel (d_ckd_priv D fuel k P c i) = true.
  Hypothesis ckd_pub_fof : forall fuel P c i, in_family_or_fuel (d_ckd_pub D fuel P c i) = true.

  Lemma new_priv_fof kb kd : in_family_or_fuel (new_priv D kb kd) = true.
  Proof. unfold new_priv. apply fof_bind; [apply fof_key_error, priv_fof|reflexivity]. Qed.
  Lemma new_pub_fof P kd : in_family_or_fuel (new_pub D P kd) = true.
  Proof. unfold new_pub. apply fof_bind; [apply fof_key_error, pub_fof|reflexivity]. Qed.

  Lemma child_key_fof fuel o i : in_family_or_fuel (child_key hash160 D fuel o i) = true.
  Proof.
    unfold child_key. destruct (N.leb i bip32_index_max); [|reflexivity].
    destruct (o_priv o) as [k|].
    - apply fof_bind; [apply ckd_priv_fof|]. intros kc _. apply new_priv_fof.
    - destruct (negb (hardened i)); [|reflexivity].
      apply fof_bind; [apply ckd_pub_fof|]. intros Pc _. apply new_pub_fof.
  Qed.

  Lemma derive_elems_fof fuel p : forall o, in_family_or_fuel (derive_elems hash160 D fuel o p) = true.
  Proof.
    induction p as [|i t IH]; intros o; cbn [derive_elems]; [reflexivity|].
    apply fof_bind; [apply child_key_fof|]. intros o' _. apply IH.
  Qed.

  Lemma derive_path_fof fuel o is_abs p : in_family_or_fuel (derive_path hash160 D fuel o is_abs p) = true.
  Proof. unfold derive_path. destruct (negb _); [apply derive_elems_fof|reflexivity]. Qed.

  (* Bip32Base.FromSeedAndPath(seed bytes, Bip32Path) *)
  Lemma from_seed_and_path_fof fuel seed is_abs p :
    in_family_or_fuel (from_seed_and_path hmac512 hash160 D fuel seed is_abs p) = true.
  Proof.
    unfold from_seed_and_path. apply fof_bind; [apply from_seed_family_or_fuel|]. intros o _. apply derive_path_fof.
  Qed.
End Derive.

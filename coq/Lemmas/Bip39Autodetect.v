(* Language auto-detection over the nine regenerated lists: exact for eight languages, partial
   for French, with an explicit French sentence on which it fails (defect F13). *)
From Coq Require Import NArith Arith List Lia Bool.
From BU Require Import Base.Exn Base.Radix Base.Bytes Model.BinStr Model.Bip39 Model.Bip39Spec
                       Gen.Bip39Consts Gen.WlBip39
                       Lemmas.BinStr Lemmas.Bip39 Lemmas.Bip39WlAux Lemmas.Bip39WordlistsOk.
Import ListNotations.
Open Scope N_scope.

Section Auto.
  Variable sha256 : list N -> list N.

  (* every language other than French: whatever sentence of listed words, auto-detection gives
     exactly the outcomes of the explicit decoder (Decode, DecodeWithChecksum, IsValid) *)
  Theorem autodetect_total_for k wl ws :
    nth_error bip39_langs k = Some wl -> k <> lang_french -> Forall (fun w => In w wl) ws ->
    same_outcomes sha256 bip39_langs wl ws.
  Proof.
    intros Hk Hfr Hf. destruct (lang_at_nth k wl Hk) as [Ek Hk9].
    apply (autodetect_compatible sha256 bip39_langs k wl ws Hk Hf).
    intros j wlj Hj Hn. destruct (lang_at_nth j wlj Hn) as [Ej _].
    pose proof (bip39_compat j k Hj Hk9 Hfr) as C. rewrite Ej, Ek in C.
    intros w a b Ha Hb. exact (C w a b Ha Hb).
  Qed.

  (* French: exact unless the whole sentence is also made of English words *)
  Theorem autodetect_french_partial ws :
    Forall (fun w => In w wl_bip39_french) ws -> ~ Forall (fun w => In w wl_bip39_english) ws ->
    same_outcomes sha256 bip39_langs wl_bip39_french ws.
  Proof.
    intros Hf Hne.
    apply (autodetect_partial sha256 bip39_langs lang_french wl_bip39_french ws); [reflexivity|exact Hf|].
    intros j wlj Hj Hn Hfj. destruct (lang_at_nth j wlj Hn) as [Ej _].
    destruct (Nat.eq_dec j lang_english) as [->|Hje].
    - exfalso. apply Hne. unfold lang_english in Hn. simpl in Hn. inversion Hn; subst. exact Hfj.
    - apply compatible_indices; auto. pose proof (bip39_compat_french j Hj Hje) as C.
      rewrite Ej in C. exact C.
  Qed.
End Auto.

(* ---- the witness of F13 ---- *)
(* "humble wagon animal fragile orange science vague machine usage muscle million stable" *)
Definition f13_sentence : list (list N) :=
  [[104; 117; 109; 98; 108; 101]; [119; 97; 103; 111; 110]; [97; 110; 105; 109; 97; 108];
   [102; 114; 97; 103; 105; 108; 101]; [111; 114; 97; 110; 103; 101]; [115; 99; 105; 101; 110; 99; 101];
   [118; 97; 103; 117; 101]; [109; 97; 99; 104; 105; 110; 101]; [117; 115; 97; 103; 101];
   [109; 117; 115; 99; 108; 101]; [109; 105; 108; 108; 105; 111; 110]; [115; 116; 97; 98; 108; 101]].
(* its entropy read with the French list: 7cdfe43735dad7affd5c9af4541a7071 *)
Definition f13_entropy_fr : list N :=
  [124; 223; 228; 55; 53; 218; 215; 175; 253; 92; 154; 244; 84; 26; 112; 113].
(* the 128 leading bits read with the English list: 6efec8242e39bd81fc2c2cef923232e9 *)
Definition f13_entropy_en : list N :=
  [110; 254; 200; 36; 46; 57; 189; 129; 252; 44; 44; 239; 146; 50; 50; 233].

Lemma f13_all_french : Forall (fun w => In w wl_bip39_french) f13_sentence.
Proof. apply all_found_iff. vm_compute. reflexivity. Qed.
Lemma f13_all_english : Forall (fun w => In w wl_bip39_english) f13_sentence.
Proof. apply all_found_iff. vm_compute. reflexivity. Qed.

Lemma f13_detected_english : find_language_in bip39_langs f13_sentence = Ok wl_bip39_english.
Proof. vm_compute. reflexivity. Qed.

Lemma decode_spec_unfold sha256 wl ws idxs :
  legal_word_count (length ws) = true -> sentence_indices wl ws = Some idxs ->
  decode_spec sha256 wl ws =
    let bits := sentence_bits idxs in
    let cl := (length ws / 3)%nat in
    let ent := bytes_of_bits (firstn (length bits - cl) bits) in
    if list_eqb (skipn (length bits - cl) bits) (firstn cl (bits_of_bytes (sha256 ent)))
    then Ok ent else Err (LibError MnemonicChecksumError).
Proof. intros H1 H2. unfold decode_spec. rewrite H1, H2. reflexivity. Qed.

Section F13.
  Variable sha256 : list N -> list N.
  Hypothesis sha256_len : forall x, length (sha256 x) = 32%nat.
  Hypothesis sha256_bytes : forall x, bytes_ok (sha256 x).
  (* the two facts about SHA-256 the witness needs; the harness checks them with hashlib *)
  Hypothesis sha_fr : firstn 4 (bits_of_bytes (sha256 f13_entropy_fr)) = [0; 0; 0; 1].
  Hypothesis sha_en : firstn 4 (bits_of_bytes (sha256 f13_entropy_en)) = [1; 0; 1; 1].

  Lemma f13_french_valid :
    decode sha256 bip39_langs (Some wl_bip39_french) f13_sentence = Ok f13_entropy_fr.
  Proof.
    rewrite decode_explicit_langs.
    rewrite (decode_eq_spec sha256 sha256_len sha256_bytes wl_bip39_french);
      [|apply (bip39_list_ok wl_bip39_french); apply (lang_at_in lang_french); unfold lang_french; lia].
    assert (Hi : sentence_indices wl_bip39_french f13_sentence =
                 Some [998; 2041; 110; 861; 1387; 1727; 1963; 1178; 1954; 1286; 1248; 1809])
      by (vm_compute; reflexivity).
    rewrite (decode_spec_unfold sha256 _ f13_sentence _ (eq_refl true) Hi). cbv zeta.
    set (bits := sentence_bits _).
    assert (E1 : bytes_of_bits (firstn (length bits - (length f13_sentence / 3)%nat) bits) = f13_entropy_fr)
      by (vm_compute; reflexivity).
    assert (E2 : skipn (length bits - (length f13_sentence / 3)%nat) bits = [0; 0; 0; 1])
      by (vm_compute; reflexivity).
    rewrite E1, E2. change (length f13_sentence / 3)%nat with 4%nat. rewrite sha_fr. reflexivity.
  Qed.

  Lemma f13_auto_rejected :
    decode sha256 bip39_langs None f13_sentence = Err (LibError MnemonicChecksumError).
  Proof.
    unfold decode. rewrite (decode_bin_auto sha256 bip39_langs _ _ f13_detected_english).
    change (decode sha256 bip39_langs (Some wl_bip39_english) f13_sentence = Err (LibError MnemonicChecksumError)).
    rewrite decode_explicit_langs.
    rewrite (decode_eq_spec sha256 sha256_len sha256_bytes wl_bip39_english);
      [|apply (bip39_list_ok wl_bip39_english); apply (lang_at_in lang_english); unfold lang_english; lia].
    assert (Hi : sentence_indices wl_bip39_english f13_sentence =
                 Some [887; 1970; 72; 739; 1246; 1543; 1925; 1068; 1916; 1164; 1125; 1694])
      by (vm_compute; reflexivity).
    rewrite (decode_spec_unfold sha256 _ f13_sentence _ (eq_refl true) Hi). cbv zeta.
    set (bits := sentence_bits _).
    assert (E1 : bytes_of_bits (firstn (length bits - (length f13_sentence / 3)%nat) bits) = f13_entropy_en)
      by (vm_compute; reflexivity).
    assert (E2 : skipn (length bits - (length f13_sentence / 3)%nat) bits = [1; 1; 1; 0])
      by (vm_compute; reflexivity).
    rewrite E1, E2. change (length f13_sentence / 3)%nat with 4%nat. rewrite sha_en. reflexivity.
  Qed.

  (* the full-strength statement "auto-detected decoding of a valid sentence returns its entropy"
     fails for French *)
  Theorem autodetect_refuted :
    exists ws e, Forall (fun w => In w wl_bip39_french) ws /\
                 decode sha256 bip39_langs (Some wl_bip39_french) ws = Ok e /\
                 decode sha256 bip39_langs None ws <> Ok e /\
                 is_valid sha256 bip39_langs None ws = Ok false.
  Proof.
    exists f13_sentence, f13_entropy_fr. split; [exact f13_all_french|]. split; [exact f13_french_valid|].
    split; [rewrite f13_auto_rejected; discriminate|].
    unfold is_valid. rewrite f13_auto_rejected. reflexivity.
  Qed.
End F13.

(* LINK: the Electrum v1 seed generator (Model/Seeds.v, C02) takes the mnemonic decoder as a Section variable; the
   decoder is Model/ElectrumV1Mnemonic.v (C17), for which decode-after-encode, acceptance and the error class are
   proved over the regenerated 1626-word list.  Composed: entropy -> mnemonic -> seed is the stretched hex of the
   entropy, for every 16-byte entropy, with SHA-256 the only oracle. *)
From Coq Require Import NArith List.
From BU Require Import Base.Exn Base.Bytes Gen.Bip39Consts Model.Seeds Model.ChunkMnemonic Model.ElectrumV1Mnemonic.
From BU Require Lemmas.Seeds Lemmas.MnemC17.
Import ListNotations.
Open Scope N_scope.

Notation ev1_encode := Lemmas.MnemC17.ev1_encode.
Definition ev1_decoder (conformant : bool) :=
  if conformant then Lemmas.MnemC17.ev1_decode else Lemmas.MnemC17.ev1_decode_current.

(* ElectrumV1SeedGenerator(mnemonic).Generate() on a word list, with THE Electrum v1 decoder *)
Definition ev1_seed_c (sha256 : list N -> list N) (conformant : bool) : list (list N) -> res (list N) :=
  electrum_v1_seed sha256 (ev1_decoder conformant).

Theorem ev1_seed_of_entropy sha256 conformant b : bytes_ok b -> length b = 16%nat ->
  exists ws, ev1_encode b = Ok ws /\ length ws = 12%nat /\
    ev1_seed_c sha256 conformant ws = Ok (ev1_stretch sha256 (hexlify b) ev1_hash_itr_num).
Proof.
  intros Hb L. unfold ev1_seed_c, electrum_v1_seed.
  destruct conformant.
  - destruct (Lemmas.MnemC17.ev1_dec_enc words_to_chunk b (or_introl eq_refl) Hb L) as (ws & E & Lw & _ & D).
    exists ws. split; [exact E|]. split; [exact Lw|]. cbn [ev1_decoder]. unfold Lemmas.MnemC17.ev1_decode. rewrite D. reflexivity.
  - destruct (Lemmas.MnemC17.ev1_dec_enc words_to_chunk_current b (or_intror eq_refl) Hb L) as (ws & E & Lw & _ & D).
    exists ws. split; [exact E|]. split; [exact Lw|]. cbn [ev1_decoder]. unfold Lemmas.MnemC17.ev1_decode_current. rewrite D. reflexivity.
Qed.

(* the generator refuses exactly the word lists the decoder refuses, with ValueError *)
Theorem ev1_seed_errors sha256 conformant ws e : ev1_seed_c sha256 conformant ws = Err e -> e = ValueError.
Proof.
  unfold ev1_seed_c, electrum_v1_seed. destruct (ev1_decoder conformant ws) as [ent|e'] eqn:D; cbn [bind]; [discriminate|].
  intros H. inversion H; subst. destruct conformant; cbn [ev1_decoder] in D.
  - exact (Lemmas.MnemC17.ev1_decode_err_family true ws e D).
  - exact (Lemmas.MnemC17.ev1_decode_err_family false ws e D).
Qed.

(* a seed exists iff the decoder accepts, and it is then 32 bytes *)
Theorem ev1_seed_ok_iff sha256 conformant ws : (forall x, length (sha256 x) = 32%nat) ->
  ((exists seed, ev1_seed_c sha256 conformant ws = Ok seed) <-> (exists b, ev1_decoder conformant ws = Ok b)) /\
  (forall seed, ev1_seed_c sha256 conformant ws = Ok seed -> length seed = 32%nat).
Proof.
  intros Hl. unfold ev1_seed_c, electrum_v1_seed. split.
  - destruct (ev1_decoder conformant ws) as [ent|e]; cbn [bind].
    + split; intros _; eexists; reflexivity.
    + split; intros (x & H); discriminate.
  - intros seed. destruct (ev1_decoder conformant ws) as [ent|e]; cbn [bind]; [|discriminate].
    change ev1_hash_itr_num with (N.succ 99999). rewrite Lemmas.Seeds.ev1_stretch_succ.
    intros H. apply (f_equal (fun r : res (list N) => match r with inl v => length v | inr _ => 0%nat end)) in H.
    unfold Ok in H. cbv beta iota in H. rewrite <- H. apply Hl.
Qed.

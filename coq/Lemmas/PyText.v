(* Proofs about Model/PyText.v: range-table lookup, strip, split, endswith, str(int), int(str).
   Table-independent part; the facts computed over Gen/Unicode.v are in Lemmas/UnicodeOk.v. *)
From Coq Require Import NArith ZArith List Bool Lia.
From BU Require Import Base.Exn Base.Radix Base.Bytes Gen.Unicode Model.PyText.
Import ListNotations.
Open Scope N_scope.

(* ------------------------------------------------------------------ range tables *)

Lemma in_ranges_spec rs c :
  in_ranges rs c = true <-> exists lo hi, In (lo, hi) rs /\ lo <= c /\ c <= hi.
Proof.
  induction rs as [|[lo hi] t IH]; simpl.
  - split; [discriminate|intros (?&?&[]&_)].
  - rewrite orb_true_iff, andb_true_iff, !N.leb_le, IH. split.
    + intros [[H1 H2]|(l&h&Hin&H)]; [exists lo, hi; auto|exists l, h; auto].
    + intros (l&h&[E|Hin]&H); [inversion E; subst; left; exact H|right; eauto].
Qed.

Lemma find_range_spec rs c lo hi :
  find_range rs c = Some (lo, hi) -> In (lo, hi) rs /\ lo <= c /\ c <= hi.
Proof.
  induction rs as [|[l h] t IH]; simpl; [discriminate|].
  destruct ((l <=? c) && (c <=? h)) eqn:E.
  - intros H; inversion H; subst. apply andb_true_iff in E. rewrite !N.leb_le in E. auto.
  - intros H. destruct (IH H) as (?&?). auto.
Qed.

Lemma covers_fuel_sound fuel rs : forall lo hi, covers_fuel fuel rs lo hi = true ->
  forall c, lo <= c -> c <= hi -> in_ranges rs c = true.
Proof.
  induction fuel as [|f IH]; intros lo hi H c Hl Hh; simpl in H; [discriminate|].
  destruct (find_range rs lo) as [[l h]|] eqn:F; [|discriminate].
  apply find_range_spec in F. destruct F as (Hin & Hl1 & Hl2).
  destruct (N.le_gt_cases c h) as [Hc|Hc].
  - apply in_ranges_spec. exists l, h. repeat split; auto; lia.
  - destruct (hi <=? h) eqn:E.
    + apply N.leb_le in E. lia.
    + apply (IH (h + 1) hi H c); lia.
Qed.

Lemma ranges_subset_sound a b : ranges_subset a b = true ->
  forall c, in_ranges a c = true -> in_ranges b c = true.
Proof.
  unfold ranges_subset. rewrite forallb_forall. intros H c Hc.
  apply in_ranges_spec in Hc. destruct Hc as (lo & hi & Hin & H1 & H2).
  specialize (H _ Hin). cbn [fst snd] in H. exact (covers_fuel_sound _ _ _ _ H c H1 H2).
Qed.

Lemma ranges_disjoint_sound a b : ranges_disjoint a b = true ->
  forall c, in_ranges a c = true -> in_ranges b c = false.
Proof.
  unfold ranges_disjoint. rewrite forallb_forall. intros H c Hc.
  apply in_ranges_spec in Hc. destruct Hc as (lo & hi & Hin & H1 & H2).
  specialize (H _ Hin). rewrite forallb_forall in H.
  destruct (in_ranges b c) eqn:E; [|reflexivity]. exfalso.
  apply in_ranges_spec in E. destruct E as (l & h & Hin' & H3 & H4).
  specialize (H _ Hin'). simpl in H. apply orb_true_iff in H. rewrite !N.ltb_lt in H. lia.
Qed.

Lemma ranges_below_sound bound a : ranges_below bound a = true ->
  forall c, in_ranges a c = true -> c < bound.
Proof.
  unfold ranges_below. rewrite forallb_forall. intros H c Hc.
  apply in_ranges_spec in Hc. destruct Hc as (lo & hi & Hin & H1 & H2).
  specialize (H _ Hin). simpl in H. apply N.ltb_lt in H. lia.
Qed.

Definition runs_ranges (runs : list (N * N * N)) : list (N * N) :=
  map (fun r => (fst (fst r), snd (fst r))) runs.

Lemma run_value_dom runs c : in_ranges (runs_ranges runs) c = true <-> run_value runs c <> None.
Proof.
  induction runs as [|[[lo hi] v] t IH]; simpl; [split; [discriminate|congruence]|].
  destruct ((lo <=? c) && (c <=? hi)); simpl; [split; [discriminate|reflexivity]|exact IH].
Qed.

(* every run stays within one decade *)
Definition runs_small (runs : list (N * N * N)) : bool :=
  forallb (fun r => let '(lo, hi, v0) := r in (lo <=? hi) && (v0 + (hi - lo) <? 10)) runs.

Lemma run_value_lt runs c d : runs_small runs = true -> run_value runs c = Some d -> d < 10.
Proof.
  induction runs as [|[[lo hi] v] t IH]; simpl; [discriminate|].
  rewrite andb_true_iff. intros [H1 H2].
  destruct ((lo <=? c) && (c <=? hi)) eqn:E; [|auto].
  intros H; inversion H; subst. apply andb_true_iff in E, H1. rewrite !N.leb_le in E.
  destruct H1 as [_ H1]. apply N.ltb_lt in H1. lia.
Qed.

(* ------------------------------------------------------------------ generic list helpers *)

Lemma removelast_snoc {A} (l : list A) x : removelast (l ++ [x]) = l.
Proof. apply removelast_last. Qed.

Lemma forallb_app' {A} (p : A -> bool) a b : forallb p (a ++ b) = forallb p a && forallb p b.
Proof. apply forallb_app. Qed.

Lemma forallb_rev {A} (p : A -> bool) l : forallb p (rev l) = forallb p l.
Proof.
  induction l as [|x t IH]; [reflexivity|]. simpl. rewrite forallb_app, IH. simpl.
  rewrite andb_true_r. apply andb_comm.
Qed.

(* ------------------------------------------------------------------ strip *)

Lemma lstrip_by_all p ws l : forallb p ws = true -> lstrip_by p (ws ++ l) = lstrip_by p l.
Proof.
  induction ws as [|x t IH]; [reflexivity|]. simpl. rewrite andb_true_iff. intros [-> H]. auto.
Qed.

Lemma lstrip_by_id p x t : p x = false -> lstrip_by p (x :: t) = x :: t.
Proof. intros H. simpl. rewrite H. reflexivity. Qed.

Lemma lstrip_by_decomp p l : exists a, l = a ++ lstrip_by p l /\ forallb p a = true.
Proof.
  induction l as [|x t (a & E & Ha)]; [exists []; auto|]. simpl.
  destruct (p x) eqn:Px.
  - exists (x :: a). simpl. rewrite Px, Ha. split; [f_equal; exact E|reflexivity].
  - exists []. auto.
Qed.

Lemma lstrip_by_head p l x t : lstrip_by p l = x :: t -> p x = false.
Proof.
  induction l as [|y l IH]; simpl; [discriminate|].
  destruct (p y) eqn:Py; [exact IH|]. intros E; inversion E; subst; exact Py.
Qed.

Lemma rstrip_by_all p l ws : forallb p ws = true -> rstrip_by p (l ++ ws) = rstrip_by p l.
Proof.
  intros H. unfold rstrip_by. rewrite rev_app_distr, lstrip_by_all; [reflexivity|].
  rewrite forallb_rev. exact H.
Qed.

Lemma rstrip_by_id p l y : p y = false -> rstrip_by p (l ++ [y]) = l ++ [y].
Proof.
  intros H. unfold rstrip_by. rewrite rev_app_distr. simpl. rewrite H. simpl.
  rewrite rev_involutive. reflexivity.
Qed.

Lemma rstrip_by_decomp p l : exists b, l = rstrip_by p l ++ b /\ forallb p b = true.
Proof.
  destruct (lstrip_by_decomp p (rev l)) as (a & E & Ha). exists (rev a). split.
  - unfold rstrip_by. rewrite <- rev_app_distr, <- E, rev_involutive. reflexivity.
  - rewrite forallb_rev. exact Ha.
Qed.

Lemma rstrip_by_last p l m y : rstrip_by p l = m ++ [y] -> p y = false.
Proof.
  unfold rstrip_by. intros E. apply (f_equal (@rev N)) in E.
  rewrite rev_involutive, rev_app_distr in E. simpl in E. eapply lstrip_by_head; eauto.
Qed.

(* the white space around a core that begins and ends with a non-space is removed exactly *)
Lemma strip_by_core p ws1 x mid y ws2 :
  forallb p ws1 = true -> forallb p ws2 = true ->
  forall body, body = x :: mid -> (exists m', body = m' ++ [y]) -> p x = false -> p y = false ->
  strip_by p (ws1 ++ body ++ ws2) = body.
Proof.
  intros H1 H2 body Eb (m' & Eb') Px Py. unfold strip_by.
  rewrite lstrip_by_all by exact H1. rewrite Eb. cbn [app]. rewrite lstrip_by_id by exact Px.
  change (x :: mid ++ ws2) with ((x :: mid) ++ ws2). rewrite rstrip_by_all by exact H2.
  rewrite <- Eb, Eb'. apply rstrip_by_id. exact Py.
Qed.

(* any string is  spaces ++ strip ++ spaces,  and a non-empty strip begins and ends with non-spaces *)
Lemma strip_by_decomp p l : exists a b,
  l = a ++ strip_by p l ++ b /\ forallb p a = true /\ forallb p b = true.
Proof.
  destruct (lstrip_by_decomp p l) as (a & Ea & Ha).
  destruct (rstrip_by_decomp p (lstrip_by p l)) as (b & Eb & Hb).
  exists a, b. unfold strip_by. rewrite <- Eb. auto.
Qed.

Lemma strip_by_head p l x t : strip_by p l = x :: t -> p x = false.
Proof.
  unfold strip_by. intros E.
  destruct (rstrip_by_decomp p (lstrip_by p l)) as (b & Eb & _).
  rewrite E in Eb. simpl in Eb. eapply lstrip_by_head; eauto.
Qed.

Lemma strip_by_last p l m y : strip_by p l = m ++ [y] -> p y = false.
Proof. unfold strip_by. apply rstrip_by_last. Qed.

Lemma strip_by_noop p l : (forall c, In c l -> p c = false) -> strip_by p l = l.
Proof.
  intros H. destruct l as [|x t]; [reflexivity|].
  destruct (exists_last (l := x :: t) ltac:(discriminate)) as (m & y & E).
  pose proof (strip_by_core p [] x t y [] eq_refl eq_refl (x :: t) eq_refl (ex_intro _ m E)) as C.
  rewrite app_nil_r in C. apply C.
  - apply H. left; reflexivity.
  - apply H. rewrite E. apply in_or_app. right. left. reflexivity.
Qed.

Lemma strip_by_incl p l : incl (strip_by p l) l.
Proof.
  destruct (strip_by_decomp p l) as (a & b & E & _). intros c Hc. rewrite E.
  apply in_or_app. right. apply in_or_app. left. exact Hc.
Qed.

Lemma strip_by_length p l : (length (strip_by p l) <= length l)%nat.
Proof.
  destruct (strip_by_decomp p l) as (a & b & E & _). rewrite E at 2. rewrite !app_length. lia.
Qed.

(* ------------------------------------------------------------------ startswith / endswith *)

Lemma starts_with_spec p : forall s, starts_with p s = true <-> exists t, s = p ++ t.
Proof.
  induction p as [|x p IH]; intros s; simpl.
  - split; [intros _; exists s; reflexivity|reflexivity].
  - destruct s as [|y s]; [split; [discriminate|intros (t & E); discriminate]|].
    rewrite andb_true_iff, N.eqb_eq, IH. split.
    + intros [-> (t & ->)]. exists t. reflexivity.
    + intros (t & E). inversion E; subst. split; [reflexivity|exists t; reflexivity].
Qed.

Lemma ends_with_spec suf s : ends_with suf s = true <-> exists a, s = a ++ suf.
Proof.
  unfold ends_with. rewrite starts_with_spec. split.
  - intros (t & E). exists (rev t). apply (f_equal (@rev N)) in E.
    rewrite rev_involutive, rev_app_distr, rev_involutive in E. exact E.
  - intros (a & ->). exists (rev a). apply rev_app_distr.
Qed.

Lemma ends_with_char_false c l y : y <> c -> ends_with [c] (l ++ [y]) = false.
Proof.
  intros H. destruct (ends_with [c] (l ++ [y])) eqn:E; [|reflexivity]. exfalso.
  apply ends_with_spec in E. destruct E as (a & E). apply app_inj_tail in E. destruct E; congruence.
Qed.

(* ------------------------------------------------------------------ split *)

Lemma split_on_nonnil c s : split_on c s <> [].
Proof.
  induction s as [|x t IH]; simpl; [discriminate|].
  destruct (x =? c); [discriminate|]. destruct (split_on c t); [contradiction|discriminate].
Qed.

Lemma split_on_app c a b : split_on c (a ++ c :: b) = split_on c a ++ split_on c b.
Proof.
  induction a as [|x a IH]; simpl.
  - rewrite N.eqb_refl. reflexivity.
  - destruct (x =? c); [rewrite IH; reflexivity|]. rewrite IH.
    destruct (split_on c a) as [|h r] eqn:E; [exfalso; eapply split_on_nonnil; eauto|reflexivity].
Qed.

Lemma split_on_nosep c s : ~ In c s -> split_on c s = [s].
Proof.
  induction s as [|x t IH]; intros H; [reflexivity|]. simpl.
  destruct (N.eqb_spec x c) as [->|Hn]; [exfalso; apply H; left; reflexivity|].
  rewrite IH; [reflexivity|]. intros I; apply H; right; exact I.
Qed.

Lemma split_on_incl c s e : In e (split_on c s) -> incl e s.
Proof.
  revert e. induction s as [|x t IH]; intros e; simpl.
  - intros [<-|[]]. apply incl_refl.
  - destruct (x =? c).
    + intros [<-|H]; [intros ? []|]. apply incl_tl. auto.
    + destruct (split_on c t) as [|h r] eqn:E.
      * intros [<-|[]]. intros y [->|[]]. left. reflexivity.
      * intros [<-|H].
        -- intros y [->|Hy]; [left; reflexivity|right]. apply (IH h); [left; reflexivity|exact Hy].
        -- apply incl_tl. apply IH. right. exact H.
Qed.

Lemma split_on_no_sep_inside c s e : In e (split_on c s) -> ~ In c e.
Proof.
  revert e. induction s as [|x t IH]; intros e; simpl.
  - intros [<-|[]]. intros [].
  - destruct (N.eqb_spec x c) as [->|Hn].
    + intros [<-|H]; [intros []|auto].
    + destruct (split_on c t) as [|h r] eqn:E.
      * intros [<-|[]]. intros [?|[]]. congruence.
      * intros [<-|H].
        -- intros [?|I]; [congruence|]. apply (IH h); [left; reflexivity|exact I].
        -- apply IH. right. exact H.
Qed.

Lemma split_on_length c s e : In e (split_on c s) -> (length e <= length s)%nat.
Proof.
  revert e. induction s as [|x t IH]; intros e; simpl.
  - intros [<-|[]]. simpl. lia.
  - destruct (x =? c).
    + intros [<-|H]; [simpl; lia|]. specialize (IH e H). lia.
    + destruct (split_on c t) as [|h r] eqn:E.
      * intros [<-|[]]. simpl. lia.
      * intros [<-|H].
        -- specialize (IH h (or_introl eq_refl)). simpl. lia.
        -- specialize (IH e (or_intror H)). lia.
Qed.

(* non-empty fields *)
Definition fields (c : N) (s : list N) : list (list N) := filter (@nonempty N) (split_on c s).

Lemma fields_nil c : fields c [] = [].
Proof. reflexivity. Qed.

Lemma fields_app c a b : fields c (a ++ c :: b) = fields c a ++ fields c b.
Proof. unfold fields. rewrite split_on_app. apply filter_app. Qed.

Lemma fields_single c e : e <> [] -> ~ In c e -> fields c e = [e].
Proof.
  intros Hne H. unfold fields. rewrite split_on_nosep by exact H. simpl.
  destruct e; [congruence|reflexivity].
Qed.

Lemma fields_seps c k s : fields c (repeat c k ++ s) = fields c s.
Proof.
  induction k as [|k IH]; [reflexivity|]. simpl.
  change (c :: repeat c k ++ s) with ([] ++ c :: (repeat c k ++ s)). rewrite fields_app, IH. reflexivity.
Qed.

Lemma fields_seps_only c k : fields c (repeat c k) = [].
Proof. rewrite <- (app_nil_r (repeat c k)), fields_seps. reflexivity. Qed.

Lemma fields_incl c s e : In e (fields c s) -> incl e s /\ e <> [] /\ ~ In c e.
Proof.
  unfold fields. rewrite filter_In. intros [H1 H2]. split; [eapply split_on_incl; eauto|].
  split; [destruct e; [discriminate|discriminate]|eapply split_on_no_sep_inside; eauto].
Qed.

Lemma fields_length c s e : In e (fields c s) -> (length e <= length s)%nat.
Proof. unfold fields. rewrite filter_In. intros [H _]. eapply split_on_length; eauto. Qed.

(* tokens joined by runs of separators: every token but the last is followed by k+1 separators,
   the last by k *)
Fixpoint joined (c : N) (toks : list (list N * nat)) : list N :=
  match toks with
  | [] => []
  | (t, k) :: r => t ++ match r with
                        | [] => repeat c k
                        | _ => repeat c (S k) ++ joined c r
                        end
  end.

Definition jtail (c : N) (k : nat) (r : list (list N * nat)) : list N :=
  match r with [] => repeat c k | _ => repeat c (S k) ++ joined c r end.

Lemma joined_cons c t k r : joined c ((t, k) :: r) = t ++ jtail c k r.
Proof. reflexivity. Qed.

Lemma fields_jtail c k r : fields c (jtail c k r) = fields c (joined c r).
Proof.
  unfold jtail. destruct r as [|p r]; [apply fields_seps_only|apply fields_seps].
Qed.

Lemma jtail_shape c k r : jtail c k r = [] \/ exists tl, jtail c k r = c :: tl.
Proof.
  unfold jtail. destruct r; [destruct k; simpl; eauto|simpl; eauto].
Qed.

Definition tok_ok (c : N) (t : list N) : Prop := t <> [] /\ ~ In c t.

Lemma fields_tok_tail c t tail : tok_ok c t -> (tail = [] \/ exists tl, tail = c :: tl) ->
  fields c (t ++ tail) = t :: fields c tail.
Proof.
  intros [Hne Hc] [->|(tl & ->)].
  - rewrite app_nil_r, fields_single by assumption. reflexivity.
  - rewrite fields_app, fields_single by assumption.
    change (c :: tl) with ([] ++ c :: tl). rewrite fields_app. reflexivity.
Qed.

Lemma fields_joined c toks : Forall (tok_ok c) (map fst toks) -> fields c (joined c toks) = map fst toks.
Proof.
  induction toks as [|[t k] r IH]; intros H; [reflexivity|].
  inversion H; subst. rewrite joined_cons. simpl map.
  rewrite fields_tok_tail by (auto using jtail_shape). rewrite fields_jtail, IH by assumption. reflexivity.
Qed.

(* every string is a run of separators followed by its fields joined by runs of separators *)
Lemma fields_decomp c s : exists k0 toks,
  s = repeat c k0 ++ joined c toks /\ map fst toks = fields c s /\ Forall (tok_ok c) (map fst toks).
Proof.
  induction s as [|x s (k0 & toks & E & Ef & Hok)].
  - exists 0%nat, []. repeat split; constructor.
  - destruct (N.eq_dec x c) as [->|Hx].
    + exists (S k0), toks. split; [simpl; f_equal; exact E|]. split; [|exact Hok].
      change (c :: s) with ([] ++ c :: s). rewrite fields_app. exact Ef.
    + assert (Hx1 : tok_ok c [x]) by (split; [discriminate|intros [?|[]]; congruence]).
      destruct k0 as [|k0].
      * destruct toks as [|[t k] r].
        -- exists 0%nat, [([x], 0%nat)]. simpl in E. subst s. simpl. split; [reflexivity|].
           split; [|constructor; [exact Hx1|constructor]].
           rewrite (fields_single c [x]); [reflexivity|discriminate|intros [?|[]]; congruence].
        -- exists 0%nat, ((x :: t, k) :: r). simpl repeat in *. rewrite app_nil_l in *.
           rewrite joined_cons in *. simpl map in *. inversion Hok as [|? ? Ht Hr]; subst.
           assert (Hxt : tok_ok c (x :: t)).
           { destruct Ht as [_ Ht]. split; [discriminate|]. intros [?|I]; [congruence|auto]. }
           split; [reflexivity|]. split; [|constructor; assumption].
           change (x :: t ++ jtail c k r) with ((x :: t) ++ jtail c k r).
           rewrite fields_tok_tail by (auto using jtail_shape).
           rewrite fields_tok_tail in Ef by (auto using jtail_shape).
           inversion Ef as [Ef']. reflexivity.
      * (* x followed by at least one separator: a new token [x] *)
        exists 0%nat, (([x], match toks with [] => S k0 | _ => k0 end) :: toks). subst s. split.
        { simpl. destruct toks; [rewrite app_nil_r; reflexivity|reflexivity]. }
        simpl map. split; [|constructor; assumption].
        change (x :: repeat c (S k0) ++ joined c toks) with ([x] ++ c :: (repeat c k0 ++ joined c toks)).
        rewrite fields_app, (fields_single c [x]) by (destruct Hx1; assumption).
        simpl. f_equal. rewrite Ef.
        change (repeat c (S k0) ++ joined c toks) with ([] ++ c :: (repeat c k0 ++ joined c toks)).
        rewrite fields_app. reflexivity.
Qed.

(* concatenating  tok ++ [c]  for every token and dropping the last character is a join with minimal runs *)
Lemma removelast_flat_map c (toks : list (list N)) :
  removelast (flat_map (fun t => t ++ [c]) toks) = joined c (map (fun t => (t, 0%nat)) toks).
Proof.
  induction toks as [|t r IH]; [reflexivity|].
  destruct r as [|t' r'].
  - simpl. rewrite app_nil_r, removelast_snoc, app_nil_r. reflexivity.
  - assert (Hne : flat_map (fun t => t ++ [c]) (t' :: r') <> []) by (simpl; destruct t'; discriminate).
    change (flat_map (fun t => t ++ [c]) (t :: t' :: r'))
      with ((t ++ [c]) ++ flat_map (fun t => t ++ [c]) (t' :: r')).
    rewrite removelast_app by exact Hne. rewrite IH, <- app_assoc. reflexivity.
Qed.

(* ------------------------------------------------------------------ str(int) *)

Lemma to_be_10_digits n : Forall (fun d => d < 10) (to_be 10 n).
Proof. apply digits_ok_rev, to_le_digits. lia. Qed.

Lemma from_be_to_be_10 n : from_be 10 (to_be 10 n) = n.
Proof. unfold from_be, to_be. rewrite rev_involutive. apply from_to_le. lia. Qed.

Lemma to_be_10_length n k : n < 10 ^ N.of_nat k -> (length (to_be 10 n) <= k)%nat.
Proof. intros H. unfold to_be. rewrite rev_length. apply to_le_length_le; [lia|exact H]. Qed.

Definition ascii_digits (n : N) : list N := if n =? 0 then [0] else to_be 10 n.

Lemma str_of_N_digits n : str_of_N n = map (fun d => ascii_zero + d) (ascii_digits n).
Proof. unfold str_of_N, ascii_digits. destruct (n =? 0); reflexivity. Qed.

Lemma ascii_digits_ok n : Forall (fun d => d < 10) (ascii_digits n) /\ ascii_digits n <> [] /\
  from_be 10 (ascii_digits n) = n.
Proof.
  unfold ascii_digits. destruct (N.eqb_spec n 0) as [->|Hn].
  - repeat split; [repeat constructor|discriminate].
  - repeat split; [apply to_be_10_digits| |apply from_be_to_be_10].
    unfold to_be. intros E. apply (f_equal (@rev N)) in E. rewrite rev_involutive in E.
    simpl in E. revert E. apply to_le_nonzero; [lia|exact Hn].
Qed.

Lemma ascii_digits_length n k : (1 <= k)%nat -> n < 10 ^ N.of_nat k -> (length (ascii_digits n) <= k)%nat.
Proof.
  intros Hk H. unfold ascii_digits. destruct (n =? 0); [simpl; lia|apply to_be_10_length; exact H].
Qed.

(* ------------------------------------------------------------------ int(str) *)

Definition is_dec (c : N) : bool := match cp_digit_val c with Some _ => true | None => false end.
Definition dv (c : N) : N := match cp_digit_val c with Some d => d | None => 0 end.

  Lemma int_digits_no_us l : ~ In ch_underscore l ->
    int_digits l = if nonempty l && forallb is_dec l then Some (map dv l) else None.
  Proof.
    induction l as [|c r IH]; intros Hn; [reflexivity|].
    cbn [int_digits nonempty forallb andb map]. unfold is_dec at 1, dv at 1.
    destruct (cp_digit_val c) as [d|] eqn:Ec; [|reflexivity].
    destruct r as [|u r']; [reflexivity|].
    destruct (N.eqb_spec u ch_underscore) as [->|Hu]; [exfalso; apply Hn; right; left; reflexivity|].
    rewrite IH by (intros I; apply Hn; right; exact I).
    cbn [nonempty andb]. destruct (forallb is_dec (u :: r')); reflexivity.
  Qed.

Lemma map_dv_length l : length (map dv l) = length l.
Proof. apply map_length. Qed.

Lemma int_limit_ok_le a b : (a <= b)%nat -> int_limit_ok b = true -> int_limit_ok a = true.
Proof.
  unfold int_limit_ok. intros H. rewrite !orb_true_iff, !N.leb_le. intros [E|E]; [left; exact E|right; lia].
Qed.

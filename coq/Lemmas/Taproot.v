(* Taproot output key: fixed width and independence from the input key's parity byte. *)
From Coq Require Import NArith List Lia.
From BU Require Import Base.Exn Base.Radix Base.Bytes Gen.AddrTextConsts Model.Taproot.
Import ListNotations.
Open Scope N_scope.

Section TaprootProofs.
  Variable sha256 : list N -> list N.
  Variable sqrt_even : N -> option N.
  Variable ec_add : option (N * N) -> option (N * N) -> option (N * N).
  Variable ec_mul_base : N -> res (option (N * N)).
  Variable coord_len : nat.

  Lemma int_to_be_fixed_len w v b : int_to_be_fixed w v = Ok b -> length b = w /\ bytes_ok b /\ be_to_int b = v.
  Proof.
    unfold int_to_be_fixed. destruct (int_to_le_fixed w v) as [l|] eqn:E; simpl; [|discriminate].
    intros H; inversion H; subst. apply int_to_le_fixed_ok in E. destruct E as (E1 & E2 & E3).
    split; [rewrite rev_length; exact E2|]. split; [apply bytes_ok_rev; exact E1|].
    unfold be_to_int, Radix.from_be. rewrite rev_involutive. exact E3.
  Qed.

  (* whatever the point, whatever the hash: an output key, when produced, is exactly coord_len
     bytes long and is the big-endian encoding of the output point's x (leading zeros kept) *)
  Theorem tweak_fixed_width x out :
    tweak_x sha256 sqrt_even ec_add ec_mul_base coord_len x = Ok out ->
    length out = coord_len /\ bytes_ok out.
  Proof.
    unfold tweak_x, bind, of_option, Ok, Err.
    repeat match goal with
           | |- context [match ?t with _ => _ end] => destruct t eqn:?; try discriminate
           end.
    intros H. apply int_to_be_fixed_len in H. tauto.
  Qed.

  (* BIP-341 is x-only: the 02/03 prefix byte of the input key does not matter *)
  Theorem tweak_parity_independent p q xs :
    tweak sha256 sqrt_even ec_add ec_mul_base coord_len (p :: xs) =
    tweak sha256 sqrt_even ec_add ec_mul_base coord_len (q :: xs).
  Proof. reflexivity. Qed.
End TaprootProofs.

(* LINK: Cardano Shelley addresses on the concrete Bech32 codec (Model/LinkAdaShelley.v, Lemmas/Bech32.v).

   Lemmas/AddrAdaShelley.v assumed   forall hrp b, b32_dec hrp (b32_enc hrp b) = Some b   of an abstract total codec.
   The real codec satisfies this only for well-formed HRPs and BYTE payloads (Lemmas/LinkBech32.v), so:
   - the four configured HRPs (addr, addr_test, stake, stake_test) are shown well-formed by computation on the
     regenerated table;
   - the payload is header || Blake2b-224 || Blake2b-224, so the link needs [bytes_ok (blake2b_224 x)] -- an oracle
     law that [shelley_laws] does not list (the abstract law quantified over arbitrary number lists and hid it).
   With these the decode-after-encode theorems hold with Blake2b-224 (length, byte-ness) and the ed25519 point
   decoding as the only oracles. *)
From Coq Require Import NArith ZArith Arith List Lia Bool.
From BU Require Import Base.Exn Base.Radix Base.Bytes Gen.ConstsCardmon.
From BU Require Import Model.EdLib Model.Bip32Kholaw Model.AddrAdaShelley Model.Bech32 Model.LinkAdaShelley.
From BU Require Import Lemmas.CardmonConstsOk Lemmas.EdLib.
From BU Require Lemmas.AddrAdaShelley Lemmas.Bech32 Lemmas.LinkBech32.
Import ListNotations.
Open Scope N_scope.

Notation hrp_enc_ok := Lemmas.Bech32.hrp_enc_ok.

Lemma ada_hrps_ok : forall net, In net ada_nets -> hrp_enc_ok (net_hrp net) /\ hrp_enc_ok (net_stake_hrp net).
Proof.
  intros net H. unfold ada_nets in H. simpl in H.
  destruct H as [<-|[<-|[]]]; split; apply LinkBech32.hrp_enc_okb_sound; vm_compute; reflexivity.
Qed.

Lemma b32_dec_c_rt hrp d s : hrp_enc_ok hrp -> bytes_ok d -> d <> [] ->
  bech32_encode hrp d = Ok s -> b32_dec_c hrp s = Some d.
Proof. intros Hh Hd Hn E. unfold b32_dec_c. rewrite (LinkBech32.bech32_rt hrp d s Hh Hd Hn E). reflexivity. Qed.

Section ShelleyLink.
  Variable blake2b_224 : list N -> list N.
  Variable G : Type.
  Variable pdec : list N -> option G.
  Hypothesis blake_len : forall x, length (blake2b_224 x) = 28%nat.
  Hypothesis blake_ok : forall x, bytes_ok (blake2b_224 x).

  Notation encode_payment_c := (encode_payment_c blake2b_224 G pdec).
  Notation encode_staking_c := (encode_staking_c blake2b_224 G pdec).

  Lemma payment_payload_eq net pk sk : In net ada_nets ->
    payment_payload blake2b_224 net pk sk = [0 * 16 + net_tag net] ++ blake2b_224 pk ++ blake2b_224 sk.
  Proof. intros Hn. unfold payment_payload, key_hash. destruct (Lemmas.AddrAdaShelley.prefix_bytes net Hn) as (-> & _). reflexivity. Qed.
  Lemma staking_payload_eq net sk : In net ada_nets ->
    staking_payload blake2b_224 net sk = [14 * 16 + net_tag net] ++ blake2b_224 sk.
  Proof. intros Hn. unfold staking_payload, key_hash. destruct (Lemmas.AddrAdaShelley.prefix_bytes net Hn) as (_ & -> & _). reflexivity. Qed.

  Lemma payment_payload_ok net pk sk : In net ada_nets -> bytes_ok ([0 * 16 + net_tag net] ++ blake2b_224 pk ++ blake2b_224 sk).
  Proof.
    intros Hn. destruct (Lemmas.AddrAdaShelley.prefix_bytes net Hn) as (_ & _ & T).
    repeat (apply bytes_ok_app; split); auto. constructor; [lia|constructor].
  Qed.
  Lemma staking_payload_ok net sk : In net ada_nets -> bytes_ok ([14 * 16 + net_tag net] ++ blake2b_224 sk).
  Proof.
    intros Hn. destruct (Lemmas.AddrAdaShelley.prefix_bytes net Hn) as (_ & _ & T).
    apply bytes_ok_app; split; auto. constructor; [lia|constructor].
  Qed.

  (* layout: what the encoder hands to Bech32 *)
  Theorem encode_payment_c_layout net pub pub_sk s : In net ada_nets -> encode_payment_c net pub pub_sk = Ok s ->
    exists pk sk, pub_from_bytes G pdec pub = Ok pk /\ pub_from_bytes G pdec pub_sk = Ok sk /\
      bech32_encode (net_hrp net) ([0 * 16 + net_tag net] ++ blake2b_224 pk ++ blake2b_224 sk) = Ok s.
  Proof.
    intros Hn. unfold LinkAdaShelley.encode_payment_c.
    destruct (pub_from_bytes G pdec pub) as [pk|]; cbn [bind Ok Err]; [|discriminate].
    destruct (pub_from_bytes G pdec pub_sk) as [sk|]; cbn [bind Ok Err]; [|discriminate].
    rewrite (payment_payload_eq net pk sk Hn). intros H. exists pk, sk. auto.
  Qed.
  Theorem encode_staking_c_layout net pub_sk s : In net ada_nets -> encode_staking_c net pub_sk = Ok s ->
    exists sk, pub_from_bytes G pdec pub_sk = Ok sk /\
      bech32_encode (net_stake_hrp net) ([14 * 16 + net_tag net] ++ blake2b_224 sk) = Ok s.
  Proof.
    intros Hn. unfold LinkAdaShelley.encode_staking_c.
    destruct (pub_from_bytes G pdec pub_sk) as [sk|]; cbn [bind Ok Err]; [|discriminate].
    rewrite (staking_payload_eq net sk Hn). intros H. exists sk. auto.
  Qed.

  (* the encoders return whenever both keys are accepted: the Bech32 layer never refuses a Shelley payload *)
  Theorem encode_payment_c_total net pub pub_sk pk sk : In net ada_nets ->
    pub_from_bytes G pdec pub = Ok pk -> pub_from_bytes G pdec pub_sk = Ok sk ->
    exists s, encode_payment_c net pub pub_sk = Ok s.
  Proof.
    intros Hn E1 E2. unfold LinkAdaShelley.encode_payment_c. rewrite E1, E2. cbn [bind Ok].
    rewrite (payment_payload_eq net pk sk Hn). apply LinkBech32.bech32_encode_total, payment_payload_ok, Hn.
  Qed.

  Theorem decode_encode_payment_c net pub pub_sk s : In net ada_nets -> encode_payment_c net pub pub_sk = Ok s ->
    exists pk sk, pub_from_bytes G pdec pub = Ok pk /\ pub_from_bytes G pdec pub_sk = Ok sk /\
      decode_payment_c net s = Ok (blake2b_224 pk ++ blake2b_224 sk).
  Proof.
    intros Hn H. destruct (encode_payment_c_layout net pub pub_sk s Hn H) as (pk & sk & E1 & E2 & E).
    exists pk, sk. split; [exact E1|]. split; [exact E2|].
    unfold decode_payment_c, decode_payment.
    rewrite (b32_dec_c_rt _ _ _ (proj1 (ada_hrps_ok net Hn)) (payment_payload_ok net pk sk Hn) ltac:(discriminate) E).
    cbn [of_option bind Ok Err].
    rewrite !app_length, !blake_len, ada_keyhash_len_28. cbn [length Nat.eqb Nat.add Nat.mul].
    destruct (Lemmas.AddrAdaShelley.prefix_bytes net Hn) as (-> & _). apply Lemmas.AddrAdaShelley.strip_prefix_app.
  Qed.

  Theorem decode_encode_staking_c net pub_sk s : In net ada_nets -> encode_staking_c net pub_sk = Ok s ->
    exists sk, pub_from_bytes G pdec pub_sk = Ok sk /\ decode_staking_c net s = Ok (blake2b_224 sk).
  Proof.
    intros Hn H. destruct (encode_staking_c_layout net pub_sk s Hn H) as (sk & E1 & E).
    exists sk. split; [exact E1|].
    unfold decode_staking_c, decode_staking.
    rewrite (b32_dec_c_rt _ _ _ (proj2 (ada_hrps_ok net Hn)) (staking_payload_ok net sk Hn) ltac:(discriminate) E).
    cbn [of_option bind Ok Err].
    rewrite !app_length, !blake_len, ada_keyhash_len_28. cbn [length Nat.eqb Nat.add Nat.mul].
    destruct (Lemmas.AddrAdaShelley.prefix_bytes net Hn) as (_ & -> & _). apply Lemmas.AddrAdaShelley.strip_prefix_app.
  Qed.

  Section Wallet.
    Variable derive : node -> list Z -> res node.
    Notation shelley_address_c := (shelley_address_c blake2b_224 G pdec derive).
    Notation shelley_staking_address_c := (shelley_staking_address_c blake2b_224 G pdec derive).

    Theorem shelley_address_c_layout net account change idx s : In net ada_nets ->
      shelley_address_c net account change idx = Ok s ->
      exists st a pk sk, derive account [2%Z; 0%Z] = Ok st /\ derive account [change; idx] = Ok a /\
        pub_from_bytes G pdec (n_pub a) = Ok pk /\ pub_from_bytes G pdec (n_pub st) = Ok sk /\
        bech32_encode (net_hrp net) ([0 * 16 + net_tag net] ++ blake2b_224 pk ++ blake2b_224 sk) = Ok s /\
        decode_payment_c net s = Ok (blake2b_224 pk ++ blake2b_224 sk).
    Proof.
      intros Hn. unfold LinkAdaShelley.shelley_address_c. rewrite Lemmas.AddrAdaShelley.staking_node_path. unfold address_node.
      destruct (derive account [2%Z; 0%Z]) as [st|]; cbn [bind Ok Err]; [|discriminate].
      destruct (derive account [change; idx]) as [a|]; cbn [bind Ok Err]; [|discriminate].
      intros H. destruct (encode_payment_c_layout _ _ _ _ Hn H) as (pk & sk & E1 & E2 & E).
      exists st, a, pk, sk. repeat split; auto.
      destruct (decode_encode_payment_c _ _ _ _ Hn H) as (pk' & sk' & E1' & E2' & D).
      rewrite E1 in E1'. rewrite E2 in E2'. inversion E1'; inversion E2'; subst. exact D.
    Qed.

    Theorem shelley_staking_address_c_layout net account s : In net ada_nets ->
      shelley_staking_address_c net account = Ok s ->
      exists st sk, derive account [2%Z; 0%Z] = Ok st /\ pub_from_bytes G pdec (n_pub st) = Ok sk /\
        bech32_encode (net_stake_hrp net) ([14 * 16 + net_tag net] ++ blake2b_224 sk) = Ok s /\
        decode_staking_c net s = Ok (blake2b_224 sk).
    Proof.
      intros Hn. unfold LinkAdaShelley.shelley_staking_address_c. rewrite Lemmas.AddrAdaShelley.staking_node_path.
      destruct (derive account [2%Z; 0%Z]) as [st|]; cbn [bind Ok Err]; [|discriminate].
      intros H. destruct (encode_staking_c_layout _ _ _ Hn H) as (sk & E1 & E).
      exists st, sk. repeat split; auto.
      destruct (decode_encode_staking_c _ _ _ Hn H) as (sk' & E1' & D).
      rewrite E1 in E1'. inversion E1'; subst. exact D.
    Qed.
  End Wallet.
End ShelleyLink.

(* ---- the decoders alone: no oracle at all *)
Theorem decode_payment_c_err net s e : decode_payment_c net s = Err e -> e = ValueError.
Proof. apply Lemmas.AddrAdaShelley.decode_payment_err. Qed.

Theorem decode_staking_c_err net s e : decode_staking_c net s = Err e -> e = ValueError.
Proof.
  unfold decode_staking_c, decode_staking, strip_prefix. destruct (b32_dec_c _ _); cbn [of_option bind Ok Err];
    [|intros H; inversion H; auto].
  destruct (_ =? _)%nat; [|intros H; inversion H; auto].
  destruct (list_eqb _ _); intros H; inversion H; auto.
Qed.

(* canonicity, inherited from Bech32: an accepted address is, up to letter case, the encoding of
   header || the returned hashes -- nothing else decodes *)
Theorem decode_payment_c_inv net s r : In net ada_nets -> decode_payment_c net s = Ok r ->
  length r = 56%nat /\ bech32_encode (net_hrp net) ([0 * 16 + net_tag net] ++ r) = Ok (Bech32Str.py_lower s).
Proof.
  intros Hn. unfold decode_payment_c, decode_payment, b32_dec_c.
  destruct (bech32_decode (net_hrp net) s) as [d|] eqn:D; cbn [of_option bind Ok Err]; [|discriminate].
  destruct (Nat.eqb_spec (length d) (ada_keyhash_len * 2 + 1)) as [L|]; [|discriminate].
  unfold strip_prefix. destruct (Lemmas.AddrAdaShelley.prefix_bytes net Hn) as (-> & _).
  destruct (list_eqb _ _) eqn:P; [|discriminate]. apply list_eqb_spec in P. intros H. inversion H; subst r. clear H.
  rewrite ada_keyhash_len_28 in L. cbn [length] in *.
  destruct d as [|d0 d']; [discriminate|]. cbn [skipn firstn] in *. inversion P as [P0]. rewrite P0.
  cbn [length] in L. split; [lia|].
  cbn [app]. apply Lemmas.Bech32.bech32_dec_then_enc. exact D.
Qed.

Example b32_dec_c_uppercase : b32_dec_c [88] [88; 49; 113; 113; 108; 104; 48; 122; 53; 51] = None.
Proof. vm_compute. reflexivity. Qed.

(* C14: exception-faithful models never leave the documented family (ValueError and
   subclasses, or a library error class) -- one lemma per modelled entry point.

   This file: the generic combinators every no-escape proof uses, and the text/wire codecs.
   The other areas are in NoEscapePaths.v, NoEscapeMnem.v, NoEscapeSer.v, NoEscapeEcc.v, NoEscapeAddr.v.

   PATTERN for adding an entry point (f : input -> res A):
     * if its contributor already proved an error lemma  [f x = Err e -> e = E1 \/ e = E2 ...],
       the no-escape lemma is   [apply family_of_errs; intros e E; destruct (that_lemma ... E) ...; subst; reflexivity];
     * otherwise unfold the model and run [fam] (below), which walks through bind / mapM / if / match and leaves
       exactly the Err sites that are not syntactically in the family (IndexError after a length check, ...),
       to be shown unreachable by hand;
     * state it in Props/C14.v by [exact], add the census entry to MODEL_MAP in harness/props/C14.py. *)
From Coq Require Import NArith ZArith List Bool.
From BU Require Import Base.Exn Base.Bytes Gen.Consts Gen.CodecConsts Model.Base58 Model.Codecs.
From BU Require Model.IntBytes Model.Cbor.
From BU Require Lemmas.Base58 Lemmas.XmrConstsOk Lemmas.IntBytes Lemmas.ConvertBitsOk Lemmas.Base32Ok Lemmas.SS58Ok
                Lemmas.CborOk.
Import ListNotations.

(* ------------------------------------------------------------------ generic combinators *)

Lemma in_family_ok {A} (a : A) : in_family (Ok a) = true.
Proof. reflexivity. Qed.

Lemma in_family_iff {A} (r : res A) :
  in_family r = true <-> (forall e, r = Err e -> exn_in_family e = true).
Proof.
  destruct r as [a|e]; simpl; split; intros H.
  - intros e' E; discriminate.
  - reflexivity.
  - intros e' E. inversion E; subst; auto.
  - apply H; reflexivity.
Qed.

(* from an "only these errors" lemma *)
Lemma family_of_errs {A} (r : res A) :
  (forall e, r = Err e -> exn_in_family e = true) -> in_family r = true.
Proof. apply in_family_iff. Qed.

Lemma family_err_inv {A} (r : res A) e : in_family r = true -> r = Err e -> exn_in_family e = true.
Proof. intros H E. apply (proj1 (in_family_iff r) H e E). Qed.

Lemma fam_bind {A B} (r : res A) (f : A -> res B) :
  in_family r = true -> (forall a, r = Ok a -> in_family (f a) = true) -> in_family (bind r f) = true.
Proof. destruct r as [a|e]; simpl; intros H K; [apply K; reflexivity|exact H]. Qed.

Lemma fam_rmap {A B} (g : A -> B) (r : res A) : in_family r = true -> in_family (rmap g r) = true.
Proof. destruct r; simpl; auto. Qed.

Lemma fam_mapM {A B} (f : A -> res B) l :
  (forall x, In x l -> in_family (f x) = true) -> in_family (mapM f l) = true.
Proof.
  induction l as [|x t IH]; intros H; [reflexivity|].
  cbn [mapM]. apply fam_bind; [apply H; left; reflexivity|]. intros y _.
  apply fam_bind; [apply IH; intros z Hz; apply H; right; exact Hz|]. reflexivity.
Qed.

Lemma fam_of_option {A} (o : option A) e : exn_in_family e = true -> in_family (of_option o e) = true.
Proof. destruct o; simpl; auto. Qed.

(* the same family with a different carrier: only the error matters *)
Lemma fam_same_err {A B} (r : res A) (r' : res B) :
  in_family r = true -> (forall e, r' = Err e -> r = Err e) -> in_family r' = true.
Proof.
  intros H K. destruct r' as [b|e]; [reflexivity|]. simpl.
  specialize (K e eq_refl). subst r. exact H.
Qed.

(* Walk through a model: bind, mapM, rmap, if, match.  Leaves the Err sites that are not in the family. *)
Ltac fam_step :=
  match goal with
  | |- in_family (Ok _) = true => reflexivity
  | |- in_family (inl _) = true => reflexivity
  | |- in_family (Err ?e) = true => reflexivity
  | |- in_family (inr ?e) = true => reflexivity
  | H : in_family ?r = true |- in_family ?r = true => exact H
  | |- in_family (bind _ _) = true => apply fam_bind; [|intros ? ?]
  | |- in_family (rmap _ _) = true => apply fam_rmap
  | |- in_family (mapM _ _) = true => apply fam_mapM; intros ? ?
  | |- in_family (of_option _ _) = true => apply fam_of_option; reflexivity
  | |- in_family (if ?b then _ else _) = true => destruct b eqn:?
  | |- in_family (match ?x with _ => _ end) = true => destruct x eqn:?
  | |- in_family (let '(_, _) := ?x in _) = true => destruct x eqn:?
  end.
Ltac fam := repeat fam_step.

(* ------------------------------------------------------------------ Base58 / Base58Check *)

Lemma b58_decode_family alph radix s : in_family (Base58.decode alph radix s) = true.
Proof.
  apply family_of_errs. intros e E. rewrite (Lemmas.Base58.decode_err alph radix s e E). reflexivity.
Qed.

Lemma b58_check_decode_family alph radix cklen sha s :
  in_family (Base58.check_decode alph radix cklen sha s) = true.
Proof.
  apply family_of_errs. intros e E.
  destruct (Lemmas.Base58.check_decode_err alph radix cklen sha s e E) as [->| ->]; reflexivity.
Qed.

(* ------------------------------------------------------------------ Monero block Base58 *)
Lemma xmr_decode_family s : in_family (xmr_decode s) = true.
Proof. apply family_of_errs. intros e E. rewrite (XmrConstsOk.xmr_decode_err s e E). reflexivity. Qed.

(* ------------------------------------------------------------------ hex / binary strings *)
Lemma hex_decode_family s : in_family (IntBytes.from_hex_string s) = true.
Proof. apply family_of_errs. intros e E. rewrite (Lemmas.IntBytes.unhexlify_err s e E). reflexivity. Qed.

Lemma int_from_binstr_family s : in_family (IntBytes.int_from_binstr s) = true.
Proof. apply family_of_errs. intros e E. rewrite (Lemmas.IntBytes.int_from_binstr_err s e E). reflexivity. Qed.

Lemma bytes_from_binstr_family s pad : in_family (IntBytes.bytes_from_binstr s pad) = true.
Proof. apply family_of_errs. intros e E. rewrite (Lemmas.IntBytes.bytes_from_binstr_err s pad e E). reflexivity. Qed.

(* ------------------------------------------------------------------ Bech32 5 <-> 8 bit regrouping *)
Lemma from_base32_family l : in_family (from_base32 l) = true.
Proof. apply family_of_errs. intros e E. rewrite (ConvertBitsOk.from_base32_err l e E). reflexivity. Qed.

Lemma to_base32_family l : in_family (to_base32 l) = true.
Proof.
  destruct (ConvertBitsOk.to_base32_total l) as [H1 H2].
  destruct (ConvertBitsOk.bytes_dec l) as [H|H].
  - destruct (H1 H) as [x ->]. reflexivity.
  - rewrite (H2 H). reflexivity.
Qed.

(* ------------------------------------------------------------------ Base32 *)
Lemma b32_decode_family s custom : in_family (b32_decode s custom) = true.
Proof. apply family_of_errs. intros e E. rewrite (Base32Ok.b32_decode_err s custom e E). reflexivity. Qed.

(* ------------------------------------------------------------------ SS58 *)
Lemma ss58_decode_family (blake2b512 : list N -> list N) s : in_family (ss58_decode blake2b512 s) = true.
Proof.
  apply family_of_errs. intros e E.
  destruct (SS58Ok.ss58_decode_err blake2b512 s e E) as [->| ->]; reflexivity.
Qed.

(* ------------------------------------------------------------------ CBOR indefinite-length array
   (the fuel of the item loop is the input length; Lemmas/Cbor.v shows OutOfFuel unreachable) *)
Lemma cbor_decode_family enc : in_family (cbor_decode enc) = true.
Proof. apply family_of_errs. intros e E. rewrite (CborOk.cbor_decode_err enc e E). reflexivity. Qed.

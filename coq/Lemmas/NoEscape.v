(* C14: exception-faithful models never leave the documented family (ValueError and
   subclasses, or a library error class) -- one lemma per modelled entry point. *)
From Coq Require Import NArith List.
From BU Require Import Base.Exn Base.Bytes Model.Base58.
From BU Require Lemmas.Base58.
Import ListNotations.

Lemma in_family_ok {A} (a : A) : in_family (Ok a) = true.
Proof. reflexivity. Qed.

Lemma in_family_iff {A} (r : res A) :
  in_family r = true <-> (forall e, r = Err e -> exn_in_family e = true).
Proof.
  destruct r as [a|e]; simpl; split; intros H.
  - intros e' E; discriminate.
  - reflexivity.
  - intros e' E. inversion E; subst; auto.
  - apply H; reflexivity.
Qed.

Lemma b58_decode_family alph radix s : in_family (Base58.decode alph radix s) = true.
Proof.
  apply in_family_iff. intros e E. rewrite (Lemmas.Base58.decode_err alph radix s e E). reflexivity.
Qed.

Lemma b58_check_decode_family alph radix cklen sha s :
  in_family (Base58.check_decode alph radix cklen sha s) = true.
Proof.
  apply in_family_iff. intros e E.
  destruct (Lemmas.Base58.check_decode_err alph radix cklen sha s e E) as [->| ->]; reflexivity.
Qed.

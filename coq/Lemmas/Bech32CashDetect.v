(* Error detection for CashAddr strings, from the certificate of Lemmas/Bech32CertCash.v. *)
From Coq Require Import NArith Arith List Lia Bool.
From BU Require Import Base.Exn Base.Bytes Gen.Bech32Consts Model.Bech32Bits Model.Bech32Str Model.Bech32
  Lemmas.Bech32Bits Lemmas.Bech32Str Lemmas.Bech32Poly Lemmas.Bech32ConstsOk Lemmas.Bech32Code Lemmas.Bech32
  Lemmas.Bech32Detect Lemmas.Bech32Cert Lemmas.Bech32CertCash.
Import ListNotations.
Open Scope N_scope.

Theorem cash_verify_detects hrp d1 d2 : length d1 = length d2 -> (length d1 <= cash_window)%nat ->
  small32 d1 -> small32 d2 -> (1 <= hamming d1 d2 <= 4)%nat ->
  cash_verify_checksum hrp d1 = true -> cash_verify_checksum hrp d2 = false.
Proof.
  intros Hl HL H1 H2 Hh V1. destruct (cash_verify_checksum hrp d2) eqn:V2; [exfalso|reflexivity].
  apply cash_verify_iff in V1, V2. unfold polymod_raw in V1, V2. rewrite pm_app in V1, V2.
  refine (detects_4 cash_gen cash_pm_shift cash_pm_symbits cash_gens_small cash_low_indep cash_mul cash_window
            cash_certificate _ d1 d2 Hl HL H1 H2 Hh _). rewrite V1, V2. reflexivity.
Qed.

Theorem cash_detects_4 hrp s1 s2 p1 : cash_decode hrp s1 = Ok p1 ->
  data_corrupted cash_sep cash_window s1 s2 -> forall p2, cash_decode hrp s2 <> Ok p2.
Proof.
  intros D1 (h & t1 & t2 & E1 & E2 & Hsep & Hlen & HL & Hh) [nv2 dt2] D2. destruct p1 as [nv1 dt1].
  apply cash_decode_ok_iff in D1. destruct D1 as (_ & _ & _ & syms1 & b1 & L1 & S1 & _ & V1 & _).
  apply cash_decode_ok_iff in D2. destruct D2 as (_ & _ & _ & syms2 & b2 & L2 & S2 & _ & V2 & _).
  assert (Hs : ~ In cash_sep bech32_charset) by (apply (sep_stable cash_sep); right; right; left; reflexivity).
  rewrite L1 in E1. apply split_at_last in E1; [|apply (sep_not_in_syms bech32_charset cash_sep Hs); exact S1|exact Hsep].
  destruct E1 as [<- <-]. rewrite L2 in E2. apply app_inv_head in E2.
  assert (E2' : t2 = map bsym syms2) by (inversion E2; reflexivity). subst t2.
  rewrite !map_length in *. rewrite hamming_bsym in Hh by assumption.
  rewrite (cash_verify_detects hrp syms1 syms2 Hlen HL S1 S2 Hh V1) in V2. discriminate.
Qed.

Corollary cash_detects_4_err hrp s1 s2 p1 : cash_decode hrp s1 = Ok p1 ->
  data_corrupted cash_sep cash_window s1 s2 ->
  exists e, cash_decode hrp s2 = Err e /\ (e = ValueError \/ e = LibError Bech32ChecksumError).
Proof.
  intros D1 C. destruct (cash_decode hrp s2) as [p2|e] eqn:D2.
  - exfalso. exact (cash_detects_4 hrp s1 s2 p1 D1 C p2 D2).
  - exists e. split; [reflexivity|]. eapply cash_decode_err; eauto.
Qed.

(* Proofs about Model/Base58.v *)
From Coq Require Import NArith Arith List Lia Bool.
From BU Require Import Base.Exn Base.Radix Base.Bytes Model.Base58.
Import ListNotations.
Open Scope N_scope.

Lemma mapM_app {A B} (f : A -> res B) a b :
  mapM f (a ++ b) = (x <- mapM f a ;; y <- mapM f b ;; Ok (x ++ y)).
Proof.
  induction a as [|h a IH]; simpl.
  - destruct (mapM f b); reflexivity.
  - destruct (f h); simpl; [|reflexivity]. rewrite IH.
    destruct (mapM f a); simpl; [|reflexivity]. destruct (mapM f b); reflexivity.
Qed.

Lemma mapM_ok_forall {A B} (f : A -> res B) (g : A -> B) l :
  (forall x, In x l -> f x = Ok (g x)) -> mapM f l = Ok (map g l).
Proof.
  induction l as [|h t IH]; intros H; simpl; [reflexivity|].
  rewrite (H h (or_introl eq_refl)). simpl. rewrite IH; [reflexivity|]. intros; apply H; right; auto.
Qed.

Lemma mapM_length {A B} (f : A -> res B) l r : mapM f l = Ok r -> length r = length l.
Proof.
  revert r; induction l as [|h t IH]; simpl; intros r E.
  - inversion E; reflexivity.
  - destruct (f h); simpl in E; [|discriminate]. destruct (mapM f t) eqn:M; simpl in E; [|discriminate].
    inversion E; subst. simpl. f_equal. apply IH; reflexivity.
Qed.

Lemma mapM_err_exists {A B} (f : A -> res B) l e :
  mapM f l = Err e -> exists x, In x l /\ f x = Err e.
Proof.
  induction l as [|h t IH]; simpl; intros E; [discriminate|].
  destruct (f h) eqn:F; simpl in E.
  - destruct (mapM f t) eqn:M; simpl in E; [discriminate|]. inversion E; subst.
    destruct (IH eq_refl) as (x & I & Fx). exists x; auto.
  - inversion E; subst. exists h; auto.
Qed.

Lemma map_repeat {A B} (f : A -> B) x k : map f (repeat x k) = repeat (f x) k.
Proof. induction k; simpl; congruence. Qed.

Section Base58Proofs.
  Variable alph : list N.
  Variable radix : N.

  Hypothesis alph_nodup : NoDup alph.
  Hypothesis alph_len : length alph = N.to_nat radix.
  Hypothesis radix_ge2 : 2 <= radix.

  Notation sym := (sym alph).
  Notation a0 := (a0 alph).
  Notation sym_index := (sym_index alph).
  Notation encode := (encode alph radix).
  Notation decode := (decode alph radix).

  Lemma sym_nth d : d < radix -> nth_error alph (N.to_nat d) = Some (sym d).
  Proof.
    intros H. unfold Base58.sym. apply nth_error_nth'. lia.
  Qed.

  Lemma sym_index_sym d : d < radix -> sym_index (sym d) = Ok d.
  Proof.
    intros H. unfold Base58.sym_index.
    rewrite (index_of_nodup alph alph_nodup _ _ (sym_nth d H)). rewrite Nnat.N2Nat.id. reflexivity.
  Qed.

  Lemma sym_inj d e : d < radix -> e < radix -> sym d = sym e -> d = e.
  Proof.
    intros Hd He E. pose proof (sym_index_sym d Hd) as A. pose proof (sym_index_sym e He) as B.
    rewrite E in A. rewrite A in B. inversion B; auto.
  Qed.

  Lemma a0_sym : a0 = sym 0.
  Proof. reflexivity. Qed.

  Lemma sym_index_ok_iff c : (exists d, sym_index c = Ok d) <-> In c alph.
  Proof.
    unfold Base58.sym_index. destruct (index_of c alph) as [i|] eqn:E.
    - split; [intros _|eauto]. eapply nth_error_In, index_of_nth; eauto.
    - split; [intros [d H]; discriminate|]. intros I. apply index_of_none in E. contradiction.
  Qed.

  Lemma sym_index_spec c d : sym_index c = Ok d -> d < radix /\ sym d = c.
  Proof.
    unfold Base58.sym_index. destruct (index_of c alph) as [i|] eqn:E; [|discriminate].
    intros H; inversion H; subst; clear H. pose proof (index_of_lt _ _ _ E) as L.
    split; [lia|]. unfold Base58.sym. rewrite Nnat.Nat2N.id.
    apply index_of_nth in E. apply nth_error_nth; auto.
  Qed.

  Lemma sym_index_err c e : sym_index c = Err e -> e = ValueError.
  Proof. unfold Base58.sym_index. destruct (index_of c alph); intros H; inversion H; auto. Qed.

  (* the big-endian digit list of a value: all digits ok, head non-zero *)
  Lemma to_be_digits v : digits_ok radix (to_be radix v).
  Proof. apply digits_ok_rev, (to_le_digits radix radix_ge2). Qed.

  Lemma to_be_hd v x t : to_be radix v = x :: t -> x <> 0.
  Proof.
    unfold to_be. intros E. pose proof (to_le_canon radix radix_ge2 v) as C.
    assert (R : to_le radix v = rev t ++ [x]).
    { rewrite <- (rev_involutive (to_le radix v)), E. reflexivity. }
    rewrite R in C. clear - C. induction (rev t) as [|y s IH]; simpl in C; [tauto|].
    destruct C as [_ C]. destruct (s ++ [x]) eqn:E'; [destruct s; discriminate|]. auto.
  Qed.

  Theorem decode_encode b : bytes_ok b -> decode (encode b) = Ok b.
  Proof.
    intros Hb. unfold Base58.decode, Base58.encode.
    set (k := lead_count 0 b). set (ds := to_be radix (be_to_int b)).
    assert (Hds : digits_ok radix ds) by apply to_be_digits.
    assert (M : mapM sym_index (repeat a0 k ++ map sym ds) = Ok (repeat 0 k ++ ds)).
    { rewrite mapM_app.
      rewrite (mapM_ok_forall sym_index (fun _ => 0) (repeat a0 k)).
      2:{ intros x Hx. apply repeat_spec in Hx. subst x. rewrite a0_sym. apply sym_index_sym. lia. }
      simpl. rewrite map_repeat.
      assert (M2 : mapM sym_index (map sym ds) = Ok ds).
      { clear - Hds alph_nodup alph_len radix_ge2. induction Hds as [|d t Hd Ht IH]; simpl; [reflexivity|].
        rewrite sym_index_sym by auto. simpl. rewrite IH. reflexivity. }
      rewrite M2. reflexivity. }
    rewrite M. simpl.
    assert (L : lead_count a0 (repeat a0 k ++ map sym ds) = k).
    { apply lead_count_repeat_app. intros x t E.
      destruct ds as [|d ds'] eqn:Eds; [discriminate|]. simpl in E. inversion E; subst x t.
      assert (d <> 0) by (eapply to_be_hd; eauto).
      assert (d < radix) by (inversion Hds; auto).
      intro Hc. rewrite a0_sym in Hc. apply sym_inj in Hc; auto; lia. }
    rewrite L. unfold from_be. rewrite rev_app_distr, rev_repeat, (from_le_pad radix radix_ge2).
    subst ds. unfold to_be. rewrite rev_involutive, (from_to_le radix radix_ge2).
    unfold Ok. f_equal.
    rewrite (lead_count_lstrip 0 b) at 1 2. fold k.
    rewrite be_to_int_zeros. f_equal. apply int_to_be_min_of_stripped.
    - rewrite (lead_count_lstrip 0 b) in Hb. apply bytes_ok_app in Hb. tauto.
    - intros x t. apply lstrip_hd.
  Qed.

  Theorem decode_ok_iff s : (exists b, decode s = Ok b) <-> Forall (fun c => In c alph) s.
  Proof.
    unfold Base58.decode. split.
    - intros [b E]. destruct (mapM sym_index s) as [ds|e] eqn:M; simpl in E; [|discriminate].
      clear E b. revert ds M. induction s as [|c s IH]; intros ds M; constructor.
      + simpl in M. destruct (sym_index c) eqn:S; simpl in M; [|discriminate].
        apply sym_index_ok_iff; eauto.
      + simpl in M. destruct (sym_index c); simpl in M; [|discriminate].
        destruct (mapM sym_index s) eqn:M'; simpl in M; [|discriminate]. eapply IH; eauto.
    - intros H. assert (exists ds, mapM sym_index s = Ok ds) as [ds M].
      { induction H as [|c s Hc Hs [ds IH]]; [exists []; reflexivity|].
        apply sym_index_ok_iff in Hc. destruct Hc as [d Hd]. exists (d :: ds). simpl.
        rewrite Hd, IH. reflexivity. }
      rewrite M. simpl. eauto.
  Qed.

  Theorem decode_err s e : decode s = Err e -> e = ValueError.
  Proof.
    unfold Base58.decode. destruct (mapM sym_index s) eqn:M; simpl; [discriminate|].
    intros E; inversion E; subst. apply mapM_err_exists in M. destruct M as (x & _ & Hx).
    eapply sym_index_err; eauto.
  Qed.

  Lemma decode_ok_bytes s b : decode s = Ok b -> bytes_ok b.
  Proof.
    unfold Base58.decode. destruct (mapM sym_index s); simpl; [|discriminate].
    intros E; inversion E; subst. apply bytes_ok_app. split; [apply bytes_ok_repeat0|apply int_to_be_min_ok].
  Qed.

  Lemma mapM_sym_index_spec s ds : mapM sym_index s = Ok ds -> digits_ok radix ds /\ map sym ds = s.
  Proof.
    revert ds; induction s as [|c s IH]; simpl; intros ds E.
    - inversion E; subst. split; [constructor|reflexivity].
    - destruct (sym_index c) eqn:S; simpl in E; [|discriminate].
      destruct (mapM sym_index s) eqn:M; simpl in E; [|discriminate]. inversion E; subst.
      apply sym_index_spec in S. destruct S as [S1 S2]. destruct (IH _ eq_refl) as [I1 I2].
      split; [constructor; auto|]. simpl. congruence.
  Qed.

  (* canonicity: an accepted string is the encoding of what it decodes to *)
  Theorem encode_decode s b : decode s = Ok b -> encode b = s.
  Proof.
    unfold Base58.decode. destruct (mapM sym_index s) as [ds|] eqn:M; simpl; [|discriminate].
    intros E; inversion E; subst b; clear E.
    destruct (mapM_sym_index_spec _ _ M) as [Hds Hs].
    (* split the digit list into leading zeros and a canonical rest *)
    pose proof (lead_count_lstrip 0 ds) as Sp.
    set (k := lead_count 0 ds) in *. set (c := lstrip 0 ds) in *.
    assert (Hc : digits_ok radix c) by (rewrite Sp in Hds; apply digits_ok_app in Hds; tauto).
    assert (Hchd : forall x t, c = x :: t -> x <> 0) by (intros x t; apply lstrip_hd).
    assert (Lk : lead_count a0 s = k).
    { rewrite <- Hs, Sp, map_app.
      replace (map sym (repeat 0 k)) with (repeat a0 k) by (rewrite map_repeat; reflexivity).
      apply lead_count_repeat_app. intros x t Ex. destruct c as [|d c']; [discriminate|].
      simpl in Ex. inversion Ex; subst x t. intro Hcx. rewrite a0_sym in Hcx.
      apply sym_inj in Hcx; [|inversion Hc; auto|lia]. eapply Hchd; eauto. }
    rewrite Lk. unfold Base58.encode.
    assert (V : from_be radix ds = from_be radix c).
    { rewrite Sp. unfold from_be. rewrite rev_app_distr, rev_repeat. apply (from_le_pad radix radix_ge2). }
    rewrite V. clear V.
    assert (Hne : forall x t, int_to_be_min (from_be radix c) = x :: t -> x <> 0).
    { intros x t. unfold int_to_be_min. intros Ex.
      pose proof (to_le_canon 256 r256 (from_be radix c)) as C.
      assert (R : to_le 256 (from_be radix c) = rev t ++ [x]).
      { rewrite <- (rev_involutive (to_le 256 _)). unfold to_be in Ex. rewrite Ex. reflexivity. }
      rewrite R in C. clear - C. induction (rev t) as [|y u IH]; simpl in C; [tauto|].
      destruct C as [_ C]. destruct (u ++ [x]) eqn:E'; [destruct u; discriminate|]. auto. }
    destruct (lead_count_repeat_app 0 k _ Hne) as [L1 _]. rewrite L1.
    rewrite be_to_int_zeros, be_to_int_min.
    assert (T : to_be radix (from_be radix c) = c).
    { unfold to_be, from_be. rewrite (to_from_le radix radix_ge2); [apply rev_involutive|].
      destruct c as [|x t]; [exact I|]. simpl.
      apply (canon_le_snoc radix); [apply digits_ok_rev; inversion Hc; auto|inversion Hc; auto|eapply Hchd; eauto]. }
    rewrite T. rewrite <- Hs, Sp, map_app, map_repeat. reflexivity.
  Qed.

End Base58Proofs.

(* ---- Base58Check ---- *)
Section Base58CheckProofs.
  Variable alph : list N.
  Variable radix : N.
  Variable cklen : nat.
  Variable sha256 : list N -> list N.

  Hypothesis alph_nodup : NoDup alph.
  Hypothesis alph_len : length alph = N.to_nat radix.
  Hypothesis radix_ge2 : 2 <= radix.
  Notation encode := (encode alph radix).
  Notation decode := (decode alph radix).
  Let decode_encode := decode_encode alph radix alph_nodup alph_len radix_ge2.
  Let encode_decode := encode_decode alph radix alph_nodup alph_len radix_ge2.
  Let decode_err := decode_err alph radix.
  Notation checksum := (checksum cklen sha256).
  Notation check_encode := (check_encode alph radix cklen sha256).
  Notation check_decode := (check_decode alph radix cklen sha256).

  Hypothesis sha_len : forall x, length (sha256 x) = 32%nat.
  Hypothesis sha_ok : forall x, bytes_ok (sha256 x).
  Hypothesis cklen_le : (cklen <= 32)%nat.

  Lemma checksum_length b : length (checksum b) = cklen.
  Proof. unfold Base58.checksum. rewrite firstn_length, sha_len. lia. Qed.

  Theorem check_decode_encode b : bytes_ok b -> check_decode (check_encode b) = Ok b.
  Proof.
    intros Hb. unfold Base58.check_decode, Base58.check_encode.
    rewrite decode_encode.
    2:{ apply bytes_ok_app. split; auto. apply bytes_ok_firstn, sha_ok. }
    simpl. rewrite (take_last_app' cklen), (drop_last_app' cklen) by apply checksum_length.
    rewrite list_eqb_refl. reflexivity.
  Qed.

  (* acceptance: exactly the strings whose decoding ends in the checksum of the rest *)
  Theorem check_decode_ok_iff s d :
    check_decode s = Ok d <->
    exists dec, decode s = Ok dec /\ d = drop_last cklen dec /\ take_last cklen dec = checksum d.
  Proof.
    unfold Base58.check_decode. split.
    - destruct (decode s) as [dec|] eqn:D; simpl; [|discriminate].
      destruct (list_eqb _ _) eqn:E; [|discriminate]. intros H; inversion H; subst.
      exists dec. apply list_eqb_spec in E. auto.
    - intros (dec & D & -> & C). rewrite D. simpl. rewrite C, list_eqb_refl. reflexivity.
  Qed.

  Theorem check_decode_err s e : check_decode s = Err e ->
    e = ValueError \/ e = LibError Base58ChecksumError.
  Proof.
    unfold Base58.check_decode. destruct (decode s) eqn:D; simpl.
    - destruct (list_eqb _ _); [discriminate|]. intros H; inversion H; auto.
    - intros H; inversion H; subst. left. eapply decode_err; eauto.
  Qed.

  (* canonicity of Base58Check: accepted strings re-encode to themselves
     (needs at least cklen decoded bytes, otherwise dec[-4:] is the whole string) *)
  Theorem check_encode_decode s d : check_decode s = Ok d ->
    (forall dec, decode s = Ok dec -> (cklen <= length dec)%nat) -> check_encode d = s.
  Proof.
    intros H Hlen. apply check_decode_ok_iff in H. destruct H as (dec & D & -> & C).
    unfold Base58.check_encode. rewrite <- C, drop_take_last. apply encode_decode; auto.
  Qed.
End Base58CheckProofs.

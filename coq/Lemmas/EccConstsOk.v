(* Facts about the constants regenerated from /repo's ecc package (Gen/Ecc.v), re-proved by the kernel on
   every run.  They tie the generated numbers to their published meaning (RFC 8032 / SEC 2) and to each
   other; a source edit that breaks one breaks every C12 theorem that needs it. *)
From Coq Require Import NArith ZArith List Lia.
From BU Require Import Base.Exn Base.Bytes Gen.Ecc Model.Ed25519Lib.
Import ListNotations.
Open Scope Z_scope.

Lemma ed_coord_len_32 : ed_coord_len = 32%nat. Proof. reflexivity. Qed.
Lemma ed_clamp_ones : ed_clamp = Z.ones 255. Proof. vm_compute. reflexivity. Qed.
Lemma ed_sign_bit_pow : ed_sign_bit = 2 ^ 255. Proof. vm_compute. reflexivity. Qed.
Lemma ed_sign_byte_128 : ed_sign_byte = 128%N. Proof. reflexivity. Qed.
Lemma ed_q_val : ed_q = 2 ^ 255 - 19. Proof. vm_compute. reflexivity. Qed.
Lemma ed_q_range : 0 < ed_q < 2 ^ 255. Proof. vm_compute. split; reflexivity. Qed.
Lemma ed_q_odd : Z.odd ed_q = true. Proof. vm_compute. reflexivity. Qed.
Lemma ed_l_val : ed_l = 2 ^ 252 + 27742317777372353535851937790883648493. Proof. vm_compute. reflexivity. Qed.
Lemma ed_l_range : 0 < ed_l <= 2 ^ 256. Proof. vm_compute. split; [reflexivity|discriminate]. Qed.
(* _D = -121665/121666 and _I = sqrt(-1) in GF(q) *)
Lemma ed_d_meaning : (ed_d * 121666 + 121665) mod ed_q = 0. Proof. vm_compute. reflexivity. Qed.
Lemma ed_sqrtm1_meaning : (ed_sqrtm1 * ed_sqrtm1 + 1) mod ed_q = 0. Proof. vm_compute. reflexivity. Qed.
(* the generator: on the curve, and the two byte constants are its encodings *)
Lemma ed_g_on_curve : on_curve ed_q ed_d (ed_gx, ed_gy) = true. Proof. vm_compute. reflexivity. Qed.
Lemma ed_g_enc_ok : point_encode ed_coord_len ed_sign_byte (ed_gx, ed_gy) = Ok ed_g_enc_bytes.
Proof. vm_compute. reflexivity. Qed.
Lemma ed_g_dec_ok : point_coord_to_bytes ed_coord_len (ed_gx, ed_gy) = Ok ed_g_dec_bytes.
Proof. vm_compute. reflexivity. Qed.
(* (point_decode(_G_ENC_BYTES) = _G with the library's square-and-multiply x-recovery evaluates in ~11 s under
   vm_compute, but coqchk re-checks VM casts with its lazy machine and does not finish in 25 minutes; that fact
   is therefore left to the correspondence run -- tag concrete-kG in harness/props/C12.py -- where the EXTRACTED
   x_recover is run on the generator's encoding against the library.) *)
(* the curve objects configured in Ed25519Const agree with the library's own constants *)
Lemma edc_consistent : Z.of_N edc_n = ed_l /\ Z.of_N edc_gx = ed_gx /\ Z.of_N edc_gy = ed_gy.
Proof. vm_compute. repeat split. Qed.

(* key / point lengths *)
Lemma ecdsa_lens : ecdsa_coord_len = 32%nat /\ ecdsa_priv_len = 32%nat /\ ecdsa_pub_c_len = 33%nat /\
                   ecdsa_pub_u_len = 65%nat /\ ecdsa_unc_prefix = [4%N].
Proof. repeat split. Qed.
Lemma ed_lens : ed_pub_len = 32%nat /\ ed_priv_len = 32%nat /\ ed_pub_prefix = [0%N] /\
                kholaw_priv_len = 64%nat /\ sr_pub_len = 32%nat /\ sr_priv_len = 64%nat /\
                ed_point_coord_len = 32%nat.
Proof. repeat split. Qed.

(* Weierstrass curves: the configured generators satisfy y^2 = x^3 + a x + b over the configured field,
   the orders are below 2^256 and the field primes are 3 mod 4 (so SEC1 decompression is one exponentiation) *)
Open Scope N_scope.
Definition w_on_curve (p a b x y : N) : bool :=
  (x <? p) && (y <? p) && ((y * y) mod p =? (x * x * x + a * x + b) mod p).
Lemma secp_g_on_curve : w_on_curve secp_p secp_a secp_b secp_gx secp_gy = true.
Proof. vm_compute. reflexivity. Qed.
Lemma nist_g_on_curve : w_on_curve nist_p nist_a nist_b nist_gx nist_gy = true.
Proof. vm_compute. reflexivity. Qed.
Lemma secp_ranges : 0 < secp_n < 2 ^ 256 /\ secp_n < secp_p /\ secp_p < 2 ^ 256 /\ secp_p mod 4 = 3.
Proof. vm_compute. repeat split. Qed.
Lemma nist_ranges : 0 < nist_n < 2 ^ 256 /\ nist_n < nist_p /\ nist_p < 2 ^ 256 /\ nist_p mod 4 = 3.
Proof. vm_compute. repeat split. Qed.
Lemma secp_p_le : secp_p <= 2 ^ 256. Proof. vm_compute. discriminate. Qed.
Lemma nist_p_le : nist_p <= 2 ^ 256. Proof. vm_compute. discriminate. Qed.

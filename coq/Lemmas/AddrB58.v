(* Proofs about Model/AddrB58.v: decode (encode key) = the payload the format defines. *)
From Coq Require Import NArith Arith List Bool Lia.
From BU Require Import Base.Exn Base.Radix Base.Bytes Gen.Consts Gen.AddrConsts Model.Base58 Model.AddrUtils Model.AddrB58.
From BU Require Lemmas.Base58 Lemmas.ConstsOk.
Import ListNotations.
Open Scope N_scope.

(* ---- AddrDecUtils helpers ---- *)
Lemma validate_length_ok a n : length a = n -> validate_length a n = Ok tt.
Proof. intros <-. unfold validate_length. rewrite Nat.eqb_refl. reflexivity. Qed.

Lemma validate_length_inv a n u : validate_length a n = Ok u -> length a = n.
Proof. unfold validate_length. destruct (Nat.eqb_spec (length a) n); [auto|discriminate]. Qed.

Lemma remove_prefix_app p d : validate_and_remove_prefix (p ++ d) p = Ok d.
Proof.
  unfold validate_and_remove_prefix.
  rewrite firstn_app, Nat.sub_diag, firstn_all, firstn_O, app_nil_r, list_eqb_refl.
  rewrite skipn_app, Nat.sub_diag, skipn_all. reflexivity.
Qed.

Lemma remove_prefix_inv a p d : validate_and_remove_prefix a p = Ok d -> a = p ++ d.
Proof.
  unfold validate_and_remove_prefix. destruct (list_eqb _ _) eqn:E; [|discriminate].
  apply list_eqb_spec in E. intros H; inversion H; subst. rewrite <- E at 1. symmetry. apply firstn_skipn.
Qed.

(* ---- hex ---- *)
Lemma hex_val_digit d : d < 16 -> hex_val (hex_digit d) = Some d.
Proof.
  intros H. unfold hex_digit, hex_val.
  destruct (N.ltb_spec d 10).
  - assert (E : (48 <=? 48 + d) && (48 + d <=? 57) = true)
      by (apply andb_true_iff; split; apply N.leb_le; lia).
    rewrite E. f_equal. lia.
  - assert (E1 : (48 <=? 87 + d) && (87 + d <=? 57) = false)
      by (apply andb_false_iff; right; apply N.leb_gt; lia).
    assert (E2 : (97 <=? 87 + d) && (87 + d <=? 102) = true)
      by (apply andb_true_iff; split; apply N.leb_le; lia).
    rewrite E1, E2. f_equal. lia.
Qed.

Lemma from_hex_to_hex b : bytes_ok b -> from_hex (to_hex b) = Ok b.
Proof.
  induction 1 as [|x t Hx Ht IH]; [reflexivity|].
  cbn [to_hex flat_map app from_hex].
  rewrite !hex_val_digit.
  - fold (to_hex t). rewrite IH. unfold rmap, Ok. do 2 f_equal.
    pose proof (N.div_mod x 16 ltac:(lia)). lia.
  - apply N.mod_lt. lia.
  - apply N.div_lt_upper_bound; lia.
Qed.

Lemma to_hex_length b : length (to_hex b) = (2 * length b)%nat.
Proof. induction b as [|x t IH]; simpl; [reflexivity|]. rewrite IH. lia. Qed.

Lemma to_hex_app a b : to_hex (a ++ b) = to_hex a ++ to_hex b.
Proof. unfold to_hex. apply flat_map_app. Qed.

Lemma hex_digit_is_hex d : d < 16 -> is_hex_char (hex_digit d) = true.
Proof. intros H. unfold is_hex_char. rewrite hex_val_digit by auto. reflexivity. Qed.

Lemma to_hex_all_hex b : bytes_ok b -> forallb is_hex_char (to_hex b) = true.
Proof.
  induction 1 as [|x t Hx Ht IH]; [reflexivity|].
  cbn [to_hex flat_map app forallb]. fold (to_hex t). rewrite IH, !hex_digit_is_hex; auto.
  - apply N.mod_lt; lia.
  - apply N.div_lt_upper_bound; lia.
Qed.

Lemma eos_ck : (eos_cklen <= 20)%nat.
Proof. vm_compute. lia. Qed.
Lemma ergo_ck : (ergo_cklen <= blake2b256_len)%nat.
Proof. vm_compute. lia. Qed.

Section AddrProofs.
  Variables sha256 ripemd160 keccak256 sha3_256 : list N -> list N.
  Variable blake2b : nat -> list N -> list N.
  Variable valid_pub : list N -> bool.

  Hypothesis sha_len : forall x, length (sha256 x) = 32%nat.
  Hypothesis sha_ok : forall x, bytes_ok (sha256 x).
  Hypothesis rip_len : forall x, length (ripemd160 x) = 20%nat.
  Hypothesis rip_ok : forall x, bytes_ok (ripemd160 x).
  Hypothesis b2b_len : forall n x, length (blake2b n x) = n.
  Hypothesis b2b_ok : forall n x, bytes_ok (blake2b n x).

  Notation fam_a_encode := (fam_a_encode sha256).
  Notation fam_a_decode := (fam_a_decode sha256).

  Definition good_alph (alph : list N) : Prop := alph = b58_alph_btc \/ alph = b58_alph_xrp.

  Lemma b58c_dec_enc alph x : good_alph alph -> bytes_ok x ->
    b58c_dec sha256 alph (b58c_enc sha256 alph x) = Ok x.
  Proof.
    intros [-> | ->] Hx; unfold b58c_dec, b58c_enc.
    - rewrite (Lemmas.Base58.check_decode_encode _ _ _ sha256 ConstsOk.b58_alph_btc_nodup
                 ConstsOk.b58_alph_btc_len ConstsOk.b58_radix_ge2 sha_len sha_ok ConstsOk.b58_cklen_le x Hx).
      reflexivity.
    - rewrite (Lemmas.Base58.check_decode_encode _ _ _ sha256 ConstsOk.b58_alph_xrp_nodup
                 ConstsOk.b58_alph_xrp_len ConstsOk.b58_radix_ge2 sha_len sha_ok ConstsOk.b58_cklen_le x Hx).
      reflexivity.
  Qed.

  Lemma b58_dec_enc alph x : good_alph alph -> bytes_ok x ->
    b58_dec alph (b58_enc alph x) = Ok x.
  Proof.
    intros [-> | ->] Hx; unfold b58_dec, b58_enc.
    - apply (Lemmas.Base58.decode_encode _ _ ConstsOk.b58_alph_btc_nodup ConstsOk.b58_alph_btc_len ConstsOk.b58_radix_ge2 x Hx).
    - apply (Lemmas.Base58.decode_encode _ _ ConstsOk.b58_alph_xrp_nodup ConstsOk.b58_alph_xrp_len ConstsOk.b58_radix_ge2 x Hx).
  Qed.

  (* family A *)
  Theorem fam_a_decode_encode alph prefix digest dlen :
    good_alph alph -> bytes_ok prefix -> bytes_ok digest -> length digest = dlen ->
    fam_a_decode alph prefix dlen (fam_a_encode alph prefix digest) = Ok digest.
  Proof.
    intros Ha Hp Hd Hl. unfold AddrB58.fam_a_decode, AddrB58.fam_a_encode.
    rewrite b58c_dec_enc; auto; [|apply bytes_ok_app; auto]. simpl.
    rewrite validate_length_ok by (rewrite app_length; lia). simpl.
    apply remove_prefix_app.
  Qed.

  (* an accepted address is the encoding of the returned digest under the expected prefix:
     nothing else decodes (canonicity / injectivity of the whole pipeline) *)
  Theorem fam_a_decode_inv alph prefix dlen addr d :
    fam_a_decode alph prefix dlen addr = Ok d ->
    exists dec, b58c_dec sha256 alph addr = Ok dec /\ dec = prefix ++ d /\ length d = dlen.
  Proof.
    unfold AddrB58.fam_a_decode. destruct (b58c_dec sha256 alph addr) as [dec|] eqn:E; simpl; [|discriminate].
    destruct (validate_length dec _) eqn:L; simpl; [|discriminate].
    intros R. apply remove_prefix_inv in R. apply validate_length_inv in L.
    exists dec. split; [reflexivity|]. split; [assumption|].
    subst dec. rewrite app_length in L. lia.
  Qed.

  Lemma hash160_len_ok x : length (hash160 sha256 ripemd160 x) = hash160_len.
  Proof. unfold hash160. rewrite rip_len. reflexivity. Qed.

  Theorem p2pkh_decode_encode alph net_ver pub : good_alph alph -> bytes_ok net_ver ->
    p2pkh_decode sha256 alph net_ver (p2pkh_encode sha256 ripemd160 alph net_ver pub)
    = Ok (hash160 sha256 ripemd160 pub).
  Proof.
    intros. apply fam_a_decode_encode; auto; [apply rip_ok|apply hash160_len_ok].
  Qed.

  Theorem p2sh_decode_encode net_ver pub : bytes_ok net_ver ->
    p2sh_decode sha256 net_ver (p2sh_encode sha256 ripemd160 net_ver pub)
    = Ok (p2sh_script_hash sha256 ripemd160 pub).
  Proof.
    intros. apply fam_a_decode_encode; auto; [left; reflexivity|apply rip_ok|apply hash160_len_ok].
  Qed.

  Theorem xrp_decode_encode pub :
    xrp_decode sha256 (xrp_encode sha256 ripemd160 pub) = Ok (hash160 sha256 ripemd160 pub).
  Proof.
    apply p2pkh_decode_encode; [right; reflexivity|]. vm_compute. repeat constructor.
  Qed.

  Theorem xtz_decode_encode prefix pub32 : In prefix xtz_prefixes ->
    xtz_decode sha256 prefix (xtz_encode sha256 blake2b prefix pub32) = Ok (blake2b blake2b160_len pub32).
  Proof.
    intros Hp.
    assert (F : forallb bytes_okb xtz_prefixes = true) by (vm_compute; reflexivity).
    rewrite forallb_forall in F. pose proof (proj1 (bytes_okb_spec _) (F _ Hp)) as Hpre.
    apply fam_a_decode_encode; auto. left; reflexivity.
  Qed.

  Theorem neo_decode_encode v prefix suffix pub : v < 256 ->
    neo_decode sha256 [v] (neo_encode sha256 ripemd160 [v] prefix suffix pub)
    = Ok (hash160 sha256 ripemd160 (prefix ++ pub ++ suffix)).
  Proof.
    intros Hv. unfold AddrB58.neo_decode, AddrB58.neo_encode.
    rewrite b58c_dec_enc; [|left; reflexivity|].
    - simpl. rewrite validate_length_ok by (simpl; rewrite hash160_len_ok; reflexivity).
      simpl. rewrite N.eqb_refl. reflexivity.
    - constructor; [exact Hv|apply rip_ok].
  Qed.

  (* family B *)

  Theorem eos_decode_encode pub : bytes_ok pub -> length pub = secp_compr_len -> valid_pub pub = true ->
    eos_decode ripemd160 valid_pub (eos_encode ripemd160 pub) = Ok pub.
  Proof.
    intros Hb Hl Hv. unfold AddrB58.eos_decode, AddrB58.eos_encode.
    rewrite remove_prefix_app. simpl.
    assert (Hck : length (eos_checksum ripemd160 pub) = eos_cklen).
    { unfold eos_checksum. rewrite firstn_length, rip_len. pose proof eos_ck. lia. }
    rewrite b58_dec_enc; [|left; reflexivity|].
    2:{ apply bytes_ok_app; split; auto. apply bytes_ok_firstn, rip_ok. }
    simpl. rewrite validate_length_ok by (rewrite app_length, Hl, Hck; reflexivity). simpl.
    unfold split_by_checksum. rewrite (drop_last_app' eos_cklen), (take_last_app' eos_cklen) by exact Hck.
    unfold validate_checksum. rewrite list_eqb_refl. simpl. rewrite Hv. reflexivity.
  Qed.


  Theorem ergo_decode_encode net pub : ergo_p2pkh_type + net < 256 ->
    bytes_ok pub -> length pub = secp_compr_len -> valid_pub pub = true ->
    ergo_decode blake2b valid_pub net (ergo_encode blake2b net pub) = Ok pub.
  Proof.
    intros Hn Hb Hl Hv. unfold AddrB58.ergo_decode, AddrB58.ergo_encode.
    set (payload := ergo_prefix net ++ pub).
    assert (Hck : length (ergo_checksum blake2b payload) = ergo_cklen).
    { unfold ergo_checksum. rewrite firstn_length, b2b_len. pose proof ergo_ck. lia. }
    assert (Hp : bytes_ok payload).
    { apply bytes_ok_app; split; auto. constructor; [exact Hn|constructor]. }
    assert (Hpl : length payload = (secp_compr_len + 1)%nat).
    { unfold payload. rewrite app_length, Hl. unfold ergo_prefix. simpl length. lia. }
    rewrite b58_dec_enc; [|left; reflexivity|].
    2:{ apply bytes_ok_app; split; auto. apply bytes_ok_firstn, b2b_ok. }
    cbn [bind Ok]. rewrite validate_length_ok by (rewrite app_length, Hck, Hpl; lia).
    cbn [bind Ok]. unfold split_by_checksum.
    rewrite (drop_last_app' ergo_cklen), (take_last_app' ergo_cklen) by exact Hck.
    unfold validate_checksum. rewrite list_eqb_refl. cbn [bind Ok].
    unfold payload. rewrite remove_prefix_app. cbn [bind Ok]. rewrite Hv. reflexivity.
  Qed.

  Theorem sol_decode_encode pub : bytes_ok pub -> length pub = (ed25519_compr_len - 1)%nat ->
    valid_pub pub = true -> sol_decode valid_pub (sol_encode pub) = Ok pub.
  Proof.
    intros Hb Hl Hv. unfold AddrB58.sol_decode, AddrB58.sol_encode.
    rewrite b58_dec_enc; [|left; reflexivity|auto]. simpl.
    rewrite validate_length_ok by exact Hl. simpl. rewrite Hv. reflexivity.
  Qed.

  (* family C *)
  Hypothesis sha3_len : forall x, length (sha3_256 x) = 32%nat.
  Hypothesis sha3_ok : forall x, bytes_ok (sha3_256 x).

  Theorem icx_decode_encode pub_u :
    icx_decode (icx_encode sha3_256 pub_u) = Ok (take_last icx_hash_len (sha3_256 (tl pub_u))).
  Proof.
    unfold AddrB58.icx_decode, AddrB58.icx_encode. rewrite remove_prefix_app. simpl.
    assert (Hb : bytes_ok (take_last icx_hash_len (sha3_256 (tl pub_u)))) by (apply bytes_ok_skipn, sha3_ok).
    rewrite from_hex_to_hex by exact Hb. simpl.
    rewrite validate_length_ok; [reflexivity|].
    unfold take_last. rewrite skipn_length, sha3_len. reflexivity.
  Qed.

  Theorem near_decode_encode pub : bytes_ok pub -> length pub = (ed25519_compr_len - 1)%nat ->
    valid_pub pub = true -> near_decode valid_pub (near_encode pub) = Ok pub.
  Proof.
    intros Hb Hl Hv. unfold AddrB58.near_decode, AddrB58.near_encode.
    rewrite from_hex_to_hex by exact Hb. simpl. rewrite validate_length_ok by exact Hl. simpl.
    rewrite Hv. reflexivity.
  Qed.

  Theorem sui_decode_encode pub :
    sui_decode (sui_encode blake2b pub) = Ok (blake2b blake2b256_len (sui_key_type ++ pub)).
  Proof.
    unfold AddrB58.sui_decode, AddrB58.sui_encode. rewrite remove_prefix_app. simpl.
    rewrite validate_length_ok by (rewrite to_hex_length, b2b_len; reflexivity). simpl.
    apply from_hex_to_hex, b2b_ok.
  Qed.

  Theorem aptos_decode_encode trim pub :
    aptos_decode (aptos_encode sha3_256 trim pub) = Ok (sha3_256 (pub ++ aptos_suffix)).
  Proof.
    unfold AddrB58.aptos_decode, AddrB58.aptos_encode.
    set (h := to_hex (sha3_256 (pub ++ aptos_suffix))).
    rewrite remove_prefix_app. cbn [bind Ok].
    assert (Hh : length h = (sha3_256_len * 2)%nat) by (unfold h; rewrite to_hex_length, sha3_len; reflexivity).
    assert (E : repeat 48 (sha3_256_len * 2 - length (if trim then lstrip 48 h else h)) ++
                (if trim then lstrip 48 h else h) = h).
    { destruct trim.
      - pose proof (lead_count_length 48 h) as L.
        replace (sha3_256_len * 2 - length (lstrip 48 h))%nat with (lead_count 48 h) by lia.
        symmetry. apply lead_count_lstrip.
      - rewrite Hh, Nat.sub_diag. reflexivity. }
    rewrite E. rewrite validate_length_ok by exact Hh. cbn [bind Ok].
    apply from_hex_to_hex, sha3_ok.
  Qed.
End AddrProofs.

(* ---- Ethereum (EIP-55) ---- *)
Lemma ascii_lower_upper c : ascii_lower (ascii_upper c) = ascii_lower c.
Proof.
  unfold ascii_lower, ascii_upper.
  destruct ((97 <=? c) && (c <=? 122)) eqn:E1.
  - apply andb_true_iff in E1. destruct E1 as [A B]. apply N.leb_le in A, B.
    assert (E2 : (65 <=? c - 32) && (c - 32 <=? 90) = true) by (apply andb_true_iff; split; apply N.leb_le; lia).
    assert (E3 : (65 <=? c) && (c <=? 90) = false) by (apply andb_false_iff; right; apply N.leb_gt; lia).
    rewrite E2, E3. lia.
  - reflexivity.
Qed.
Lemma ascii_lower_idem c : ascii_lower (ascii_lower c) = ascii_lower c.
Proof.
  unfold ascii_lower. destruct ((65 <=? c) && (c <=? 90)) eqn:E1; [|rewrite E1; reflexivity].
  apply andb_true_iff in E1. destruct E1 as [A B]. apply N.leb_le in A, B.
  assert (E2 : (65 <=? c + 32) && (c + 32 <=? 90) = false) by (apply andb_false_iff; right; apply N.leb_gt; lia).
  rewrite E2. reflexivity.
Qed.
Lemma ascii_upper_idem c : ascii_upper (ascii_upper c) = ascii_upper c.
Proof.
  unfold ascii_upper. destruct ((97 <=? c) && (c <=? 122)) eqn:E1; [|rewrite E1; reflexivity].
  apply andb_true_iff in E1. destruct E1 as [A B]. apply N.leb_le in A, B.
  assert (E2 : (97 <=? c - 32) && (c - 32 <=? 122) = false) by (apply andb_false_iff; left; apply N.leb_gt; lia).
  rewrite E2. reflexivity.
Qed.
Lemma ascii_upper_lower c : ascii_upper (ascii_lower c) = ascii_upper c.
Proof.
  unfold ascii_lower, ascii_upper.
  destruct ((65 <=? c) && (c <=? 90)) eqn:E1.
  - apply andb_true_iff in E1. destruct E1 as [A B]. apply N.leb_le in A, B.
    assert (E2 : (97 <=? c + 32) && (c + 32 <=? 122) = true) by (apply andb_true_iff; split; apply N.leb_le; lia).
    assert (E3 : (97 <=? c) && (c <=? 122) = false) by (apply andb_false_iff; left; apply N.leb_gt; lia).
    rewrite E2, E3. lia.
  - reflexivity.
Qed.

Ltac bcase t := let E := fresh "E" in destruct t eqn:E;
  [apply andb_true_iff in E; destruct E as [?A ?B]; apply N.leb_le in A, B
  |apply andb_false_iff in E; destruct E as [E|E]; apply N.leb_gt in E].

Definition opt_eqb (a b : option N) : bool :=
  match a, b with Some x, Some y => x =? y | None, None => true | _, _ => false end.
Lemma opt_eqb_eq a b : opt_eqb a b = true -> a = b.
Proof. destruct a, b; simpl; try discriminate; auto. intros H. apply N.eqb_eq in H. congruence. Qed.

Lemma small_N_in c : c <= 127 -> In c (map N.of_nat (seq 0 128)).
Proof.
  intros H. apply in_map_iff. exists (N.to_nat c). split; [apply Nnat.N2Nat.id|].
  apply in_seq. lia.
Qed.

Lemma hex_val_upper c : hex_val (ascii_upper c) = hex_val c.
Proof.
  destruct (N.leb_spec c 127) as [L|G].
  - assert (F : forallb (fun c => opt_eqb (hex_val (ascii_upper c)) (hex_val c)) (map N.of_nat (seq 0 128)) = true)
      by (vm_compute; reflexivity).
    rewrite forallb_forall in F. apply opt_eqb_eq, F, small_N_in, L.
  - unfold ascii_upper.
    assert (E : (97 <=? c) && (c <=? 122) = false) by (apply andb_false_iff; right; apply N.leb_gt; lia).
    rewrite E. reflexivity.
Qed.

Lemma hex_val_lower c : hex_val (ascii_lower c) = hex_val c.
Proof.
  rewrite <- (hex_val_upper (ascii_lower c)), ascii_upper_lower, hex_val_upper. reflexivity.
Qed.

Section Eth.
  Variable keccak256 : list N -> list N.
  Hypothesis kec_len : forall x, length (keccak256 x) = 32%nat.
  Hypothesis kec_ok : forall x, bytes_ok (keccak256 x).

  Definition eip55 (ch : N * N) : N :=
    let '(c, h) := ch in
    match hex_val h with
    | Some v => if 8 <=? v then ascii_upper c else ascii_lower c
    | None => c
    end.

  Lemma eth_cs_unfold a : eth_checksum_encode keccak256 a =
    map eip55 (combine a (to_hex (keccak256 (map ascii_lower a)))).
  Proof. reflexivity. Qed.

  Lemma eip55_lower c h : is_hex_char h = true -> ascii_lower (eip55 (c, h)) = ascii_lower c.
  Proof.
    unfold eip55, is_hex_char. destruct (hex_val h) as [v|]; [|discriminate]. intros _.
    destruct (8 <=? v); [apply ascii_lower_upper|apply ascii_lower_idem].
  Qed.

  Lemma eip55_idem c h : eip55 (eip55 (c, h), h) = eip55 (c, h).
  Proof.
    unfold eip55. destruct (hex_val h) as [v|]; [|reflexivity].
    destruct (8 <=? v); [apply ascii_upper_idem|apply ascii_lower_idem].
  Qed.

  Lemma eip55_hex_val c h : hex_val (eip55 (c, h)) = hex_val c.
  Proof.
    unfold eip55. destruct (hex_val h) as [v|]; [|reflexivity].
    destruct (8 <=? v); [apply hex_val_upper|apply hex_val_lower].
  Qed.

  Lemma map_lower_eip55 a : forall dg, (length a <= length dg)%nat -> forallb is_hex_char dg = true ->
    map ascii_lower (map eip55 (combine a dg)) = map ascii_lower a.
  Proof.
    induction a as [|c a IH]; intros dg L H; [reflexivity|].
    destruct dg as [|h dg]; [simpl in L; lia|]. simpl in H. apply andb_true_iff in H. destruct H as [Hh Hd].
    cbn [combine map]. rewrite eip55_lower by exact Hh. f_equal. apply IH; [simpl in L; lia|exact Hd].
  Qed.

  Lemma map_eip55_idem a : forall dg,
    map eip55 (combine (map eip55 (combine a dg)) dg) = map eip55 (combine a dg).
  Proof.
    induction a as [|c a IH]; intros dg; [reflexivity|].
    destruct dg as [|h dg]; [reflexivity|]. cbn [combine map]. rewrite eip55_idem. f_equal. apply IH.
  Qed.

  Lemma dg_len x : length (to_hex (keccak256 x)) = 64%nat.
  Proof. rewrite to_hex_length, kec_len. reflexivity. Qed.

  (* EIP-55 checksum encoding is idempotent on every string of at most 64 symbols *)
  Theorem eth_checksum_idempotent a : (length a <= 64)%nat ->
    eth_checksum_encode keccak256 (eth_checksum_encode keccak256 a) = eth_checksum_encode keccak256 a.
  Proof.
    intros L. rewrite !eth_cs_unfold.
    rewrite map_lower_eip55; [apply map_eip55_idem|rewrite dg_len; exact L|apply to_hex_all_hex, kec_ok].
  Qed.

  Lemma from_hex_eip55 a : forall dg, (length a <= length dg)%nat ->
    from_hex (map eip55 (combine a dg)) = from_hex a.
  Proof.
    assert (G : forall n a dg, (length a <= n)%nat -> (length a <= length dg)%nat ->
                from_hex (map eip55 (combine a dg)) = from_hex a).
    { induction n as [|n IH]; intros a0 dg L1 L2.
      - destruct a0; [reflexivity|simpl in L1; lia].
      - destruct a0 as [|c1 [|c2 t]]; [reflexivity| |].
        + destruct dg; [simpl in L2; lia|reflexivity].
        + destruct dg as [|h1 [|h2 dg]]; [simpl in L2; lia|simpl in L2; lia|].
          cbn [combine map from_hex]. rewrite !eip55_hex_val.
          rewrite (IH t dg); [reflexivity|simpl in L1; lia|simpl in L2; lia]. }
    intros dg L. apply (G (length a)); auto.
  Qed.

  Lemma all_hex_eip55 a : forall dg, forallb is_hex_char a = true ->
    forallb is_hex_char (map eip55 (combine a dg)) = true.
  Proof.
    induction a as [|c a IH]; intros dg H; [reflexivity|].
    destruct dg as [|h dg]; [reflexivity|]. simpl in H. apply andb_true_iff in H. destruct H as [Hc Ha].
    cbn [combine map forallb]. rewrite IH by exact Ha. unfold is_hex_char in *. rewrite eip55_hex_val.
    rewrite Bool.andb_true_r. exact Hc.
  Qed.

  Lemma eth_hash_hex_spec pub_u :
    eth_hash_hex keccak256 pub_u = to_hex (skipn 12 (keccak256 (tl pub_u))).
  Proof.
    unfold eth_hash_hex. set (K := keccak256 (tl pub_u)).
    rewrite <- (firstn_skipn 12 K) at 1. rewrite to_hex_app.
    assert (L : length (to_hex (firstn 12 K)) = eth_start_byte).
    { rewrite to_hex_length, firstn_length. unfold K. rewrite kec_len. reflexivity. }
    rewrite <- L. rewrite skipn_app, Nat.sub_diag, skipn_all. reflexivity.
  Qed.

  (* decode (encode key) = last 20 bytes of Keccak-256 of the 64-byte public key, both with and
     without the checksum encoding *)
  Theorem eth_decode_encode skip pub_u :
    eth_decode keccak256 skip (eth_encode keccak256 skip pub_u) = Ok (skipn 12 (keccak256 (tl pub_u))).
  Proof.
    unfold AddrB58.eth_decode, AddrB58.eth_encode. rewrite remove_prefix_app. cbn [bind Ok].
    rewrite eth_hash_hex_spec. set (D := skipn 12 (keccak256 (tl pub_u))).
    assert (HD : bytes_ok D) by (apply bytes_ok_skipn, kec_ok).
    assert (LD : length (to_hex D) = eth_addr_len).
    { rewrite to_hex_length. unfold D. rewrite skipn_length, kec_len. reflexivity. }
    destruct skip.
    - rewrite validate_length_ok by exact LD. cbn [bind Ok].
      rewrite to_hex_all_hex by exact HD. cbn [negb andb]. apply from_hex_to_hex, HD.
    - rewrite eth_cs_unfold.
      set (dg := to_hex (keccak256 (map ascii_lower (to_hex D)))).
      assert (Ldg : (length (to_hex D) <= length dg)%nat) by (unfold dg; rewrite dg_len, LD; unfold eth_addr_len; lia).
      rewrite validate_length_ok.
      2:{ rewrite map_length, combine_length. rewrite Nat.min_l by exact Ldg. exact LD. }
      cbn [bind Ok].
      rewrite all_hex_eip55 by (apply to_hex_all_hex, HD). cbn [negb andb].
      fold (eth_checksum_encode keccak256 (to_hex D)) in |- *.
      assert (I : eth_checksum_encode keccak256 (map eip55 (combine (to_hex D) dg)) = map eip55 (combine (to_hex D) dg)).
      { change (map eip55 (combine (to_hex D) dg)) with (eth_checksum_encode keccak256 (to_hex D)).
        apply eth_checksum_idempotent. rewrite LD. unfold eth_addr_len. lia. }
      rewrite I, list_eqb_refl. cbn [negb].
      rewrite from_hex_eip55 by exact Ldg. apply from_hex_to_hex, HD.
  Qed.

  (* the decoder accepts a 40-symbol body exactly when it is hex and fixed by the checksum encoding *)
  Theorem eth_decode_accepts_iff addr d :
    eth_decode keccak256 false addr = Ok d <->
    exists a, addr = eth_prefix ++ a /\ length a = eth_addr_len /\ forallb is_hex_char a = true /\
              eth_checksum_encode keccak256 a = a /\ from_hex a = Ok d.
  Proof.
    unfold AddrB58.eth_decode. split.
    - destruct (validate_and_remove_prefix addr eth_prefix) as [a|] eqn:P; cbn [bind]; [|discriminate].
      destruct (validate_length a eth_addr_len) eqn:L; cbn [bind]; [|discriminate].
      destruct (forallb is_hex_char a) eqn:H; cbn [negb]; [|discriminate].
      destruct (list_eqb a (eth_checksum_encode keccak256 a)) eqn:C; cbn [negb andb]; [|discriminate].
      intros F. exists a. apply remove_prefix_inv in P. apply validate_length_inv in L.
      apply list_eqb_spec in C. auto.
    - intros (a & -> & L & H & C & F). rewrite remove_prefix_app. cbn [bind Ok].
      rewrite validate_length_ok by exact L. cbn [bind Ok]. rewrite H, C, list_eqb_refl. exact F.
  Qed.
End Eth.

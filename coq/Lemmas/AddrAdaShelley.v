(* Proofs about Model/AddrAdaShelley.v. *)
From Coq Require Import NArith ZArith Arith List Lia Bool.
From BU Require Import Base.Exn Base.Radix Base.Bytes Gen.ConstsCardmon.
From BU Require Import Model.EdLib Model.Bip32Kholaw Model.AddrAdaShelley Lemmas.CardmonConstsOk Lemmas.EdLib.
Import ListNotations.
Open Scope N_scope.

(* the header bytes of the configured networks: (type << 4) + network tag, one byte *)
Lemma prefix_bytes : forall net, In net ada_nets ->
  prefix_byte ada_hdr_payment (net_tag net) = [0 * 16 + net_tag net] /\
  prefix_byte ada_hdr_reward (net_tag net) = [14 * 16 + net_tag net] /\ net_tag net < 16.
Proof.
  intros net H. unfold ada_nets in H. simpl in H.
  destruct H as [<-|[<-|[]]]; vm_compute; repeat split; reflexivity.
Qed.

Section ShelleyProofs.
  Variable blake2b_224 : list N -> list N.
  Variable G : Type.
  Variable pdec : list N -> option G.
  Variable b32_enc : list N -> list N -> list N.
  Variable b32_dec : list N -> list N -> option (list N).

  Hypothesis blake_len : forall x, length (blake2b_224 x) = 28%nat.
  Hypothesis b32_dec_enc : forall hrp b, b32_dec hrp (b32_enc hrp b) = Some b.

  Notation encode_payment := (encode_payment blake2b_224 G pdec b32_enc).
  Notation encode_staking := (encode_staking blake2b_224 G pdec b32_enc).
  Notation decode_payment := (decode_payment b32_dec).
  Notation decode_staking := (decode_staking b32_dec).

  (* shelley_layout *)
  Theorem encode_payment_layout net pub pub_sk s : In net ada_nets -> encode_payment net pub pub_sk = Ok s ->
    exists pk sk, pub_from_bytes G pdec pub = Ok pk /\ pub_from_bytes G pdec pub_sk = Ok sk /\
      s = b32_enc (net_hrp net) ([0 * 16 + net_tag net] ++ blake2b_224 pk ++ blake2b_224 sk).
  Proof.
    intros Hn. unfold AddrAdaShelley.encode_payment, payment_payload, key_hash.
    destruct (pub_from_bytes G pdec pub) as [pk|]; cbn [bind Ok Err]; [|discriminate].
    destruct (pub_from_bytes G pdec pub_sk) as [sk|]; cbn [bind Ok Err]; [|discriminate].
    destruct (prefix_bytes net Hn) as (-> & _). intros H; inversion H; subst. exists pk, sk. repeat split.
  Qed.

  Theorem encode_staking_layout net pub_sk s : In net ada_nets -> encode_staking net pub_sk = Ok s ->
    exists sk, pub_from_bytes G pdec pub_sk = Ok sk /\
      s = b32_enc (net_stake_hrp net) ([14 * 16 + net_tag net] ++ blake2b_224 sk).
  Proof.
    intros Hn. unfold AddrAdaShelley.encode_staking, staking_payload, key_hash.
    destruct (pub_from_bytes G pdec pub_sk) as [sk|]; cbn [bind Ok Err]; [|discriminate].
    destruct (prefix_bytes net Hn) as (_ & -> & _). intros H; inversion H; subst. exists sk. repeat split.
  Qed.

  Lemma strip_prefix_app p rest : strip_prefix p (p ++ rest) = Ok rest.
  Proof.
    unfold strip_prefix. rewrite firstn_app, Nat.sub_diag, firstn_all. cbn [firstn]. rewrite app_nil_r, list_eqb_refl.
    rewrite skipn_app, Nat.sub_diag, skipn_all. reflexivity.
  Qed.

  (* shelley_dec_enc / reward_dec_enc *)
  Theorem decode_encode_payment net pub pub_sk s : In net ada_nets -> encode_payment net pub pub_sk = Ok s ->
    exists pk sk, pub_from_bytes G pdec pub = Ok pk /\ pub_from_bytes G pdec pub_sk = Ok sk /\
      decode_payment net s = Ok (blake2b_224 pk ++ blake2b_224 sk).
  Proof.
    intros Hn H. destruct (encode_payment_layout net pub pub_sk s Hn H) as (pk & sk & E1 & E2 & ->).
    exists pk, sk. split; [exact E1|]. split; [exact E2|].
    unfold AddrAdaShelley.decode_payment. rewrite b32_dec_enc. cbn [of_option bind Ok Err].
    rewrite !app_length, !blake_len, ada_keyhash_len_28. cbn [length Nat.eqb Nat.add Nat.mul].
    destruct (prefix_bytes net Hn) as (-> & _). apply strip_prefix_app.
  Qed.

  Theorem decode_encode_staking net pub_sk s : In net ada_nets -> encode_staking net pub_sk = Ok s ->
    exists sk, pub_from_bytes G pdec pub_sk = Ok sk /\ decode_staking net s = Ok (blake2b_224 sk).
  Proof.
    intros Hn H. destruct (encode_staking_layout net pub_sk s Hn H) as (sk & E1 & ->).
    exists sk. split; [exact E1|].
    unfold AddrAdaShelley.decode_staking. rewrite b32_dec_enc. cbn [of_option bind Ok Err].
    rewrite !app_length, !blake_len, ada_keyhash_len_28. cbn [length Nat.eqb Nat.add Nat.mul].
    destruct (prefix_bytes net Hn) as (_ & -> & _). apply strip_prefix_app.
  Qed.

  (* the decoders refuse only with ValueError *)
  Theorem decode_payment_err net s e : decode_payment net s = Err e -> e = ValueError.
  Proof.
    unfold AddrAdaShelley.decode_payment, strip_prefix. destruct (b32_dec _ _); cbn [of_option bind Ok Err];
      [|intros H; inversion H; auto].
    destruct (_ =? _)%nat; [|intros H; inversion H; auto].
    destruct (list_eqb _ _); intros H; inversion H; auto.
  Qed.

  Section Wallet.
    Variable derive : node -> list Z -> res node.
    Notation shelley_address := (shelley_address blake2b_224 G pdec b32_enc derive).
    Notation shelley_staking_address := (shelley_staking_address blake2b_224 G pdec b32_enc derive).

    (* staking_key_is_2_0 *)
    Theorem staking_node_path account : staking_node derive account = derive account [2%Z; 0%Z].
    Proof. reflexivity. Qed.

    Theorem shelley_address_layout net account change idx s : In net ada_nets ->
      shelley_address net account change idx = Ok s ->
      exists st a pk sk, derive account [2%Z; 0%Z] = Ok st /\ derive account [change; idx] = Ok a /\
        pub_from_bytes G pdec (n_pub a) = Ok pk /\ pub_from_bytes G pdec (n_pub st) = Ok sk /\
        s = b32_enc (net_hrp net) ([0 * 16 + net_tag net] ++ blake2b_224 pk ++ blake2b_224 sk) /\
        decode_payment net s = Ok (blake2b_224 pk ++ blake2b_224 sk).
    Proof.
      intros Hn. unfold AddrAdaShelley.shelley_address. rewrite staking_node_path. unfold address_node.
      destruct (derive account [2%Z; 0%Z]) as [st|]; cbn [bind Ok Err]; [|discriminate].
      destruct (derive account [change; idx]) as [a|]; cbn [bind Ok Err]; [|discriminate].
      intros H. destruct (encode_payment_layout _ _ _ _ Hn H) as (pk & sk & E1 & E2 & ->).
      exists st, a, pk, sk. repeat split; auto.
      destruct (decode_encode_payment _ _ _ _ Hn H) as (pk' & sk' & E1' & E2' & D).
      rewrite E1 in E1'. rewrite E2 in E2'. inversion E1'; inversion E2'; subst. exact D.
    Qed.

    Theorem shelley_staking_address_layout net account s : In net ada_nets ->
      shelley_staking_address net account = Ok s ->
      exists st sk, derive account [2%Z; 0%Z] = Ok st /\ pub_from_bytes G pdec (n_pub st) = Ok sk /\
        s = b32_enc (net_stake_hrp net) ([14 * 16 + net_tag net] ++ blake2b_224 sk) /\
        decode_staking net s = Ok (blake2b_224 sk).
    Proof.
      intros Hn. unfold AddrAdaShelley.shelley_staking_address. rewrite staking_node_path.
      destruct (derive account [2%Z; 0%Z]) as [st|]; cbn [bind Ok Err]; [|discriminate].
      intros H. destruct (encode_staking_layout _ _ _ Hn H) as (sk & E1 & ->).
      exists st, sk. repeat split; auto.
      destruct (decode_encode_staking _ _ _ Hn H) as (sk' & E1' & D).
      rewrite E1 in E1'. inversion E1'; subst. exact D.
    Qed.
  End Wallet.
End ShelleyProofs.

(* Proofs about Model/Bech32Bits.v (ConvertBits).
   The accumulator algorithm is related to bit lists: the pending state (acc, bits) stands for the low
   [bits] bits of acc, every emitted symbol for its [to_bits] bits, and one run of the loop preserves the
   concatenated bit stream.  Round trips then follow from uniqueness of chunking. *)
From Coq Require Import NArith Arith List Lia Bool.
From BU Require Import Base.Exn Base.Radix Base.Bytes Model.Bech32Bits.
Import ListNotations.
Open Scope N_scope.

(* ---- most-significant-first bit list of the low w bits *)
Fixpoint bitsl (w : nat) (x : N) : list bool :=
  match w with O => [] | S k => N.testbit x (N.of_nat k) :: bitsl k x end.
Definition bitsN (w x : N) : list bool := bitsl (N.to_nat w) x.

Lemma bitsl_length w x : length (bitsl w x) = w.
Proof. induction w; simpl; congruence. Qed.

Lemma bitsl_ext w x y : (forall i, (i < w)%nat -> N.testbit x (N.of_nat i) = N.testbit y (N.of_nat i)) ->
  bitsl w x = bitsl w y.
Proof.
  induction w as [|k IH]; intros H; [reflexivity|]. simpl. f_equal; [apply H; lia|]. apply IH. intros; apply H; lia.
Qed.

Lemma bitsl_inv w x y : bitsl w x = bitsl w y ->
  forall i, (i < w)%nat -> N.testbit x (N.of_nat i) = N.testbit y (N.of_nat i).
Proof.
  induction w as [|k IH]; intros E i Hi; [lia|]. simpl in E. inversion E as [[E1 E2]].
  destruct (Nat.eq_dec i k) as [->|]; [assumption|]. apply IH; [assumption|lia].
Qed.

Lemma bitsl_app a b x : bitsl (a + b) x = bitsl a (N.shiftr x (N.of_nat b)) ++ bitsl b x.
Proof.
  induction a as [|a IH]; [reflexivity|]. cbn [Nat.add bitsl app]. rewrite IH. f_equal.
  rewrite N.shiftr_spec by lia. f_equal. lia.
Qed.

Lemma high_bits_zero x w i : x < 2 ^ w -> w <= i -> N.testbit x i = false.
Proof. intros Hx Hi. rewrite <- (N.mod_small x (2 ^ w)) by assumption. apply N.mod_pow2_bits_high; assumption. Qed.

Lemma bitsl_inj w x y : x < 2 ^ N.of_nat w -> y < 2 ^ N.of_nat w -> bitsl w x = bitsl w y -> x = y.
Proof.
  intros Hx Hy E. apply N.bits_inj. intro i.
  destruct (N.lt_ge_cases i (N.of_nat w)) as [Hi|Hi].
  - rewrite <- (Nnat.N2Nat.id i). apply (bitsl_inv w); [assumption|lia].
  - rewrite (high_bits_zero x _ i Hx Hi), (high_bits_zero y _ i Hy Hi). reflexivity.
Qed.

Lemma bitsl_zero w : bitsl w 0 = repeat false w.
Proof. induction w as [|k IH]; [reflexivity|]. cbn [bitsl repeat]. rewrite N.bits_0, IH. reflexivity. Qed.

Lemma bitsl_land_ones w k y : (w <= k)%nat -> bitsl w (N.land y (N.ones (N.of_nat k))) = bitsl w y.
Proof.
  intros H. apply bitsl_ext. intros i Hi. rewrite N.land_spec, N.ones_spec_low by lia. apply andb_true_r.
Qed.

Lemma land_ones_lt y k : N.land y (N.ones k) < 2 ^ k.
Proof. rewrite N.land_ones. apply N.mod_lt, N.pow_nonzero. discriminate. Qed.

Lemma bitsN_length w x : length (bitsN w x) = N.to_nat w.
Proof. apply bitsl_length. Qed.

Lemma bitsN_app a b x : bitsN (a + b) x = bitsN a (N.shiftr x b) ++ bitsN b x.
Proof.
  unfold bitsN. rewrite Nnat.N2Nat.inj_add, bitsl_app, Nnat.N2Nat.id. reflexivity.
Qed.

Lemma bitsN_land_ones w k y : w <= k -> bitsN w (N.land y (N.ones k)) = bitsN w y.
Proof.
  intros H. unfold bitsN. rewrite <- (Nnat.N2Nat.id k). apply bitsl_land_ones. lia.
Qed.

Lemma bitsN_inj w x y : x < 2 ^ w -> y < 2 ^ w -> bitsN w x = bitsN w y -> x = y.
Proof. unfold bitsN. intros Hx Hy. apply bitsl_inj; rewrite Nnat.N2Nat.id; assumption. Qed.

Lemma bitsN_shiftl b c x : bitsN (b + c) (N.shiftl x c) = bitsN b x ++ repeat false (N.to_nat c).
Proof.
  rewrite bitsN_app. f_equal.
  - rewrite N.shiftr_shiftl_l, N.sub_diag, N.shiftl_0_r by lia. reflexivity.
  - unfold bitsN. rewrite <- bitsl_zero. apply bitsl_ext. intros i Hi.
    rewrite N.shiftl_spec_low, N.bits_0 by lia. reflexivity.
Qed.

Lemma bitsN_shiftl' b t x : b <= t ->
  bitsN t (N.shiftl x (t - b)) = bitsN b x ++ repeat false (N.to_nat (t - b)).
Proof.
  intros H. replace (bitsN t) with (bitsN (b + (t - b))) by (f_equal; lia). apply bitsN_shiftl.
Qed.

Lemma shiftr_eq0_lt v f : N.shiftr v f = 0 <-> v < 2 ^ f.
Proof.
  rewrite N.shiftr_div_pow2. assert (2 ^ f <> 0) by (apply N.pow_nonzero; discriminate).
  rewrite N.div_small_iff by assumption. tauto.
Qed.

(* ---- lists of chunks *)
Lemma app_same_length {A} (a b x y : list A) : length a = length b -> a ++ x = b ++ y -> a = b /\ x = y.
Proof.
  revert b. induction a as [|h a IH]; destruct b as [|k b]; simpl; intros L E; try discriminate.
  - auto.
  - inversion E; subst. destruct (IH b) as [-> ->]; auto.
Qed.

Lemma chunks_unique {A} (t : nat) (X Y : list (list A)) p q :
  Forall (fun c => length c = t) X -> Forall (fun c => length c = t) Y ->
  (length p < t)%nat -> (length q < t)%nat ->
  concat X ++ p = concat Y ++ q -> X = Y /\ p = q.
Proof.
  intros HX. revert Y. induction HX as [|a X Ha HX IH]; intros Y HY Hp Hq E.
  - destruct HY as [|b Y Hb HY]; [auto|]. simpl in E. subst p. rewrite !app_length in Hp. lia.
  - destruct HY as [|b Y Hb HY].
    + simpl in E. subst q. rewrite !app_length in Hq. lia.
    + simpl in E. rewrite <- !app_assoc in E. apply app_same_length in E; [|congruence].
      destruct E as [-> E]. destruct (IH Y HY Hp Hq E) as [-> ->]. auto.
Qed.

Lemma concat_chunks_length {A} (t : nat) (X : list (list A)) :
  Forall (fun c => length c = t) X -> length (concat X) = (t * length X)%nat.
Proof. induction 1 as [|a X Ha HX IH]; simpl; [lia|]. rewrite app_length, IH, Ha. lia. Qed.

Lemma flat_map_length_const {A B} (f : A -> list B) (k : nat) l :
  (forall x, length (f x) = k) -> length (flat_map f l) = (k * length l)%nat.
Proof. intros H. induction l; simpl; [lia|]. rewrite app_length, IHl, H. lia. Qed.

Lemma map_bits_inj w a : forall b, Forall (fun x => x < 2 ^ w) a -> Forall (fun x => x < 2 ^ w) b ->
  map (bitsN w) a = map (bitsN w) b -> a = b.
Proof.
  induction a as [|x a IH]; destruct b as [|y b]; simpl; intros Ha Hb E; try discriminate; [reflexivity|].
  inversion E. inversion Ha; inversion Hb; subst. f_equal; [eapply bitsN_inj; eauto|auto].
Qed.

Lemma Forall_chunks w l : Forall (fun c => length c = N.to_nat w) (map (bitsN w) l).
Proof. apply Forall_forall. intros c Hc. apply in_map_iff in Hc. destruct Hc as (x & <- & _). apply bitsN_length. Qed.

(* ------------------------------------------------------------------ the algorithm *)
Section Convert.
  Variables f t : N.
  Hypothesis t_pos : 1 <= t.

  Notation stream := (flat_map (bitsN f)).
  Notation chunks := (fun l => concat (map (bitsN t) l)).

  Lemma max_out_ones : max_out_val t = N.ones t.
  Proof. unfold max_out_val, N.ones. apply N.sub_1_r. Qed.
  Lemma max_acc_ones : max_acc f t = N.ones (f + t - 1).
  Proof. unfold max_acc, N.ones. apply N.sub_1_r. Qed.

  Lemma drain_spec fuel : forall acc bits, (N.to_nat bits <= fuel)%nat ->
    exists out b, drain t fuel acc bits = Ok (b, out) /\ b < t /\
      chunks out ++ bitsN b acc = bitsN bits acc /\ Forall (fun x => x < 2 ^ t) out.
  Proof.
    induction fuel as [|fu IH]; intros acc bits Hf.
    - assert (bits = 0) by lia. subst bits. exists [], 0. cbn [drain].
      destruct (N.ltb_spec 0 t); [|lia]. repeat split; auto; lia.
    - cbn [drain]. destruct (N.ltb_spec bits t) as [Hlt|Hge].
      + exists [], bits. repeat split; auto.
      + destruct (IH acc (bits - t)) as (out & b & E & Hb & Hc & Ho); [lia|].
        rewrite E. cbn [bind Ok fst snd].
        exists (N.land (N.shiftr acc (bits - t)) (max_out_val t) :: out), b.
        split; [reflexivity|]. split; [assumption|]. split.
        * cbn [map concat]. rewrite <- app_assoc, Hc, max_out_ones, bitsN_land_ones by lia.
          replace bits with (t + (bits - t)) at 3 by lia. rewrite bitsN_app. reflexivity.
        * constructor; [|assumption]. rewrite max_out_ones. apply land_ones_lt.
  Qed.

  Lemma step_bits acc bits v : bits < t -> v < 2 ^ f ->
    bitsN (bits + f) (N.land (N.lor (N.shiftl acc f) v) (max_acc f t)) = bitsN bits acc ++ bitsN f v.
  Proof.
    intros Hb Hv. rewrite max_acc_ones, bitsN_land_ones by lia. rewrite bitsN_app. f_equal.
    - rewrite N.shiftr_lor, N.shiftr_shiftl_l, N.sub_diag, N.shiftl_0_r by lia.
      apply shiftr_eq0_lt in Hv. rewrite Hv, N.lor_0_r. reflexivity.
    - unfold bitsN. apply bitsl_ext. intros i Hi. rewrite N.lor_spec, N.shiftl_spec_low by lia. reflexivity.
  Qed.

  Definition all_small (data : list N) : Prop := Forall (fun v => v < 2 ^ f) data.

  Lemma conv_loop_spec data : forall acc bits, bits < t ->
    exists o, conv_loop f t data acc bits = Ok o /\
      match o with
      | None => ~ all_small data
      | Some (out, acc', bits') =>
        all_small data /\ bits' < t /\ Forall (fun x => x < 2 ^ t) out /\
        chunks out ++ bitsN bits' acc' = bitsN bits acc ++ stream data
      end.
  Proof.
    induction data as [|v rest IH]; intros acc bits Hb.
    - exists (Some ([], acc, bits)). split; [reflexivity|]. repeat split; auto; [constructor|].
      simpl. rewrite app_nil_r. reflexivity.
    - cbn [conv_loop]. destruct (N.eqb_spec (N.shiftr v f) 0) as [Hz|Hnz]; cbn [negb].
      2:{ exists None. split; [reflexivity|]. intros H. inversion H; subst. apply Hnz, shiftr_eq0_lt. assumption. }
      apply shiftr_eq0_lt in Hz.
      set (acc1 := N.land (N.lor (N.shiftl acc f) v) (max_acc f t)).
      destruct (drain_spec (N.to_nat (bits + f)) acc1 (bits + f) (le_n _)) as (out1 & b1 & E1 & Hb1 & Hc1 & Ho1).
      rewrite E1. cbn [bind Ok fst snd].
      destruct (IH acc1 b1 Hb1) as (o & E2 & Ho). rewrite E2. cbn [bind Ok].
      destruct o as [[[out2 acc2] b2]|].
      + destruct Ho as (Hs & Hb2 & Ho2 & Hc2).
        exists (Some (out1 ++ out2, acc2, b2)). split; [reflexivity|].
        split; [constructor; assumption|]. split; [assumption|]. split; [apply Forall_app; auto|].
        rewrite map_app, concat_app, <- app_assoc, Hc2, app_assoc, Hc1.
        unfold acc1. rewrite step_bits by assumption. cbn [flat_map]. rewrite <- !app_assoc. reflexivity.
      + exists None. split; [reflexivity|]. intros H. inversion H; subst. auto.
  Qed.

  (* ConvertBits with padding *)
  Lemma convert_pad_spec data :
    exists o, convert_bits f t true data = Ok o /\
      match o with
      | None => ~ all_small data
      | Some out => all_small data /\ Forall (fun x => x < 2 ^ t) out /\
                    exists pd, (pd < N.to_nat t)%nat /\ chunks out = stream data ++ repeat false pd
      end.
  Proof.
    unfold convert_bits. destruct (conv_loop_spec data 0 0 ltac:(lia)) as (o & E & H). rewrite E. cbn [bind Ok].
    destruct o as [[[out acc] b]|]; [|exists None; auto].
    destruct H as (Hs & Hb & Ho & Hc). change (bitsN 0 0) with (@nil bool) in Hc. cbn [app] in Hc.
    eexists. split; [reflexivity|]. split; [assumption|].
    destruct (N.eqb_spec b 0) as [->|Hnz].
    - split; [assumption|]. exists 0%nat. split; [lia|]. change (bitsN 0 acc) with (@nil bool) in Hc.
      rewrite !app_nil_r in *. assumption.
    - split.
      + apply Forall_app. split; [assumption|]. constructor; [|constructor]. rewrite max_out_ones. apply land_ones_lt.
      + exists (N.to_nat (t - b)). split; [lia|].
        rewrite map_app, concat_app. cbn [map concat]. rewrite app_nil_r, max_out_ones, bitsN_land_ones by lia.
        rewrite bitsN_shiftl' by lia. rewrite app_assoc, Hc. reflexivity.
  Qed.

  (* ConvertBits without padding: exactly the data whose bit stream is a whole number of chunks followed by
     fewer than from_bits zero bits *)
  Lemma convert_nopad_spec data :
    exists o, convert_bits f t false data = Ok o /\
      match o with
      | None => ~ all_small data \/
                forall out r, Forall (fun x => x < 2 ^ t) out -> (r < N.to_nat t)%nat ->
                  chunks out ++ repeat false r = stream data -> (N.to_nat f <= r)%nat
      | Some out => all_small data /\ Forall (fun x => x < 2 ^ t) out /\
                    exists r, (r < N.to_nat t)%nat /\ (r < N.to_nat f)%nat /\
                              chunks out ++ repeat false r = stream data
      end.
  Proof.
    unfold convert_bits. destruct (conv_loop_spec data 0 0 ltac:(lia)) as (o & E & H). rewrite E. cbn [bind Ok].
    destruct o as [[[out acc] b]|]; [|exists None; auto].
    destruct H as (Hs & Hb & Ho & Hc). change (bitsN 0 0) with (@nil bool) in Hc. cbn [app] in Hc.
    set (last := N.land (N.shiftl acc (t - b)) (max_out_val t)).
    assert (Hlast : bitsN t last = bitsN b acc ++ repeat false (N.to_nat (t - b))).
    { unfold last. rewrite max_out_ones, bitsN_land_ones by lia.
      apply bitsN_shiftl'. lia. }
    assert (Hlast0 : last = 0 <-> bitsN b acc = repeat false (N.to_nat b)).
    { split.
      - intros Z. rewrite Z in Hlast. unfold bitsN at 1 in Hlast. rewrite bitsl_zero in Hlast.
        replace (N.to_nat t) with (N.to_nat b + N.to_nat (t - b))%nat in Hlast by lia.
        rewrite repeat_app in Hlast. apply app_same_length in Hlast; [symmetry; tauto|].
        rewrite repeat_length, bitsN_length. reflexivity.
      - intros Z. apply (bitsN_inj t); [unfold last; rewrite max_out_ones; apply land_ones_lt|apply N.neq_0_lt_0, N.pow_nonzero; discriminate|].
        rewrite Hlast, Z, <- repeat_app. unfold bitsN. rewrite bitsl_zero. f_equal. lia. }
    (* uniqueness: any other decomposition of the stream agrees with the algorithm's *)
    assert (Huniq : forall out' r, Forall (fun x => x < 2 ^ t) out' -> (r < N.to_nat t)%nat ->
              chunks out' ++ repeat false r = stream data -> out' = out /\ r = N.to_nat b /\ bitsN b acc = repeat false r).
    { intros out' r Ho' Hr Ec. rewrite <- Hc in Ec.
      apply (chunks_unique (N.to_nat t)) in Ec; try apply Forall_chunks.
      - destruct Ec as [Em Ep]. split; [apply (map_bits_inj t); assumption|].
        assert (r = N.to_nat b) by (rewrite <- (repeat_length false r), Ep, bitsN_length; reflexivity).
        subst r. auto.
      - rewrite repeat_length. assumption.
      - rewrite bitsN_length. lia. }
    destruct (N.leb_spec f b) as [Hfb|Hfb]; cbn [orb].
    - exists None. split; [reflexivity|]. right. intros out' r Ho' Hr Ec.
      destruct (Huniq out' r Ho' Hr Ec) as (_ & -> & _). lia.
    - destruct (N.eqb_spec last 0) as [Hz|Hnz]; cbn [negb].
      + exists (Some out). split; [reflexivity|]. split; [assumption|]. split; [assumption|].
        exists (N.to_nat b). split; [lia|]. split; [lia|]. apply Hlast0 in Hz. rewrite <- Hz. assumption.
      + exists None. split; [reflexivity|]. right. intros out' r Ho' Hr Ec.
        destruct (Huniq out' r Ho' Hr Ec) as (_ & -> & Z). exfalso. apply Hnz, Hlast0. assumption.
  Qed.
End Convert.

(* ------------------------------------------------------------------ the two Base32 conversions *)
Lemma bytes_small d : bytes_ok d <-> all_small 8 d.
Proof. reflexivity. Qed.

Lemma to_base32_total d : bytes_ok d ->
  exists syms, to_base32 8 5 d = Ok syms /\ Forall (fun x => x < 32) syms.
Proof.
  intros Hd. unfold to_base32. destruct (convert_pad_spec 8 5 ltac:(lia) d) as (o & E & H). rewrite E. cbn [bind Ok].
  destruct o as [out|]; [|contradiction]. exists out. split; [reflexivity|]. apply H.
Qed.

Lemma to_base32_spec d syms : to_base32 8 5 d = Ok syms ->
  bytes_ok d /\ Forall (fun x => x < 32) syms /\
  exists pd, (pd < 5)%nat /\ concat (map (bitsN 5) syms) = flat_map (bitsN 8) d ++ repeat false pd.
Proof.
  unfold to_base32. destruct (convert_pad_spec 8 5 ltac:(lia) d) as (o & E & H). rewrite E. cbn [bind Ok].
  destruct o as [out|]; [|discriminate]. intros X; inversion X; subst. exact H.
Qed.

Lemma from_base32_spec syms d : from_base32 5 8 syms = Ok d ->
  Forall (fun x => x < 32) syms /\ bytes_ok d /\
  exists r, (r < 5)%nat /\ concat (map (bitsN 8) d) ++ repeat false r = flat_map (bitsN 5) syms.
Proof.
  unfold from_base32. destruct (convert_nopad_spec 5 8 ltac:(lia) syms) as (o & E & H). rewrite E. cbn [bind Ok].
  destruct o as [out|]; [|discriminate]. intros X; inversion X; subst.
  destruct H as (Hs & Ho & r & _ & Hr & Hc). split; [exact Hs|]. split; [exact Ho|]. exists r. auto.
Qed.

Lemma to_base32_err d e : to_base32 8 5 d = Err e -> e = ValueError.
Proof.
  unfold to_base32. destruct (convert_pad_spec 8 5 ltac:(lia) d) as (o & E & H). rewrite E. cbn [bind Ok].
  destruct o; [discriminate|]. intros X; inversion X; reflexivity.
Qed.

Lemma from_base32_err syms e : from_base32 5 8 syms = Err e -> e = ValueError.
Proof.
  unfold from_base32. destruct (convert_nopad_spec 5 8 ltac:(lia) syms) as (o & E & H). rewrite E. cbn [bind Ok].
  destruct o; [discriminate|]. intros X; inversion X; reflexivity.
Qed.

Lemma stream_length w l : length (flat_map (bitsN w) l) = (N.to_nat w * length l)%nat.
Proof. apply flat_map_length_const. intros; apply bitsN_length. Qed.
Lemma chunks_length w l : length (concat (map (bitsN w) l)) = (N.to_nat w * length l)%nat.
Proof. rewrite (concat_chunks_length (N.to_nat w)) by apply Forall_chunks. rewrite map_length. reflexivity. Qed.

Lemma flat_map_concat_map {A B} (g : A -> list B) l : flat_map g l = concat (map g l).
Proof. induction l; simpl; congruence. Qed.

Lemma to_base32_length d syms : to_base32 8 5 d = Ok syms ->
  length syms = ((8 * length d + 4) / 5)%nat.
Proof.
  intros H. apply to_base32_spec in H. destruct H as (_ & _ & pd & Hpd & Hc).
  apply (f_equal (@length bool)) in Hc. rewrite chunks_length, app_length, stream_length, repeat_length in Hc.
  change (N.to_nat 5) with 5%nat in Hc. change (N.to_nat 8) with 8%nat in Hc.
  apply (Nat.div_unique _ _ _ (4 - pd)); lia.
Qed.

Lemma from_base32_length syms d : from_base32 5 8 syms = Ok d ->
  length d = (5 * length syms / 8)%nat /\ ((5 * length syms) mod 8 < 5)%nat.
Proof.
  intros H. apply from_base32_spec in H. destruct H as (_ & _ & r & Hr & Hc).
  apply (f_equal (@length bool)) in Hc. rewrite app_length, chunks_length, stream_length, repeat_length in Hc.
  change (N.to_nat 5) with 5%nat in Hc. change (N.to_nat 8) with 8%nat in Hc.
  split.
  - apply (Nat.div_unique _ _ _ r); lia.
  - replace ((5 * length syms) mod 8)%nat with r; [assumption|]. apply (Nat.mod_unique _ _ (length d)); lia.
Qed.

Lemma from_base32_nonempty syms d : from_base32 5 8 syms = Ok d -> syms <> [] -> d <> [].
Proof.
  intros H Hne ->. apply from_base32_length in H. destruct H as [H1 H2]. destruct syms as [|x s]; [congruence|].
  simpl length in *. destruct (length s) as [|k]; [simpl in H2; lia|].
  assert (8 <= 5 * S (S k))%nat by lia.
  pose proof (Nat.div_le_mono 8 (5 * S (S k)) 8 ltac:(lia) H) as Q. rewrite Nat.div_same in Q by lia.
  simpl length in H1. lia.
Qed.

Lemma from_to_base32 d syms : bytes_ok d -> to_base32 8 5 d = Ok syms -> from_base32 5 8 syms = Ok d.
Proof.
  intros Hd H. apply to_base32_spec in H. destruct H as (_ & Hs & pd & Hpd & Hc).
  unfold from_base32. destruct (convert_nopad_spec 5 8 ltac:(lia) syms) as (o & E & Ho). rewrite E. cbn [bind Ok].
  assert (Hstream : concat (map (bitsN 8) d) ++ repeat false pd = flat_map (bitsN 5) syms).
  { rewrite (flat_map_concat_map (bitsN 5)), Hc, (flat_map_concat_map (bitsN 8)). reflexivity. }
  destruct o as [out|].
  - destruct Ho as (_ & Hout & r & Hr8 & Hr5 & Hc2). rewrite <- Hstream in Hc2.
    apply (chunks_unique 8) in Hc2; try apply (Forall_chunks 8); try (rewrite repeat_length; lia).
    destruct Hc2 as [Em _]. apply (map_bits_inj 8) in Em; [subst; reflexivity|assumption|exact Hd].
  - exfalso. destruct Ho as [Hns|Hno]; [apply Hns; exact Hs|].
    specialize (Hno d pd Hd ltac:(change (N.to_nat 8) with 8%nat; lia) Hstream).
    change (N.to_nat 5) with 5%nat in Hno. lia.
Qed.

(* canonicity: whatever the strict decoder accepts is exactly the padded encoding of its output *)
Lemma to_from_base32 syms d : from_base32 5 8 syms = Ok d ->
  bytes_ok d /\ Forall (fun x => x < 32) syms /\ to_base32 8 5 d = Ok syms.
Proof.
  intros H. apply from_base32_spec in H. destruct H as (Hs & Hd & r & Hr & Hc).
  split; [exact Hd|]. split; [exact Hs|].
  destruct (to_base32_total d Hd) as (syms' & E & Hs'). rewrite E. f_equal.
  apply to_base32_spec in E. destruct E as (_ & _ & pd & Hpd & Hc').
  rewrite (flat_map_concat_map (bitsN 8)) in Hc'. rewrite (flat_map_concat_map (bitsN 5)) in Hc.
  (* both symbol strings chunk the same stream up to < 5 trailing zero bits: equal lengths, then equal *)
  assert (L : (5 * length syms' = 8 * length d + pd /\ 5 * length syms = 8 * length d + r)%nat).
  { split.
    - apply (f_equal (@length bool)) in Hc'. rewrite chunks_length, app_length, chunks_length, repeat_length in Hc'. exact Hc'.
    - apply (f_equal (@length bool)) in Hc. rewrite chunks_length, app_length, chunks_length, repeat_length in Hc. symmetry. exact Hc. }
  assert (pd = r) by lia. subst pd.
  assert (Ec : concat (map (bitsN 5) syms') ++ [] = concat (map (bitsN 5) syms) ++ []) by (rewrite !app_nil_r; congruence).
  apply (chunks_unique 5) in Ec; try apply (Forall_chunks 5); try (simpl; lia).
  destruct Ec as [Em _]. apply (map_bits_inj 5) in Em; auto.
Qed.

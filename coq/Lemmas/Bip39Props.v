(* Final forms of the C01 theorems over the nine regenerated lists (Props/C01.v states them). *)
From Coq Require Import NArith Arith List Lia Bool.
From BU Require Import Base.Exn Base.Radix Base.Bytes Model.BinStr Model.Bip39 Model.Bip39Spec
                       Gen.Bip39Consts Gen.WlBip39
                       Lemmas.BinStr Lemmas.Bip39 Lemmas.Bip39Norm Lemmas.Bip39WlAux Lemmas.Bip39WordlistsOk Lemmas.Bip39WlOverlap Lemmas.Bip39Autodetect.
Import ListNotations.
Open Scope N_scope.

(* hypotheses on the oracles *)
Definition sha_ok (sha256 : list N -> list N) : Prop :=
  (forall x, length (sha256 x) = 32%nat) /\ (forall x, bytes_ok (sha256 x)).
(* every listed word is a fixed point of lower-casing followed by NFKD *)
Definition normal_form (nfkd lower : list N -> list N) (wl : list (list N)) : Prop :=
  forall w, In w wl -> norm_word nfkd lower w = w.

Section P.
  Variable sha256 nfkd lower : list N -> list N.
  Hypothesis Hsha : sha_ok sha256.
  Variable wl : list (list N).
  Hypothesis Hwl : In wl bip39_langs.

  Let wl_len : length wl = 2048%nat := proj1 (bip39_list_ok wl Hwl).
  Let wl_nodup : NoDup wl := proj1 (proj2 (bip39_list_ok wl Hwl)).

  Lemma p_encode_raw ent : bytes_ok ent ->
    encode sha256 nfkd lower wl ent = rmap (map (norm_word nfkd lower)) (encode_spec sha256 wl ent).
  Proof. destruct Hsha as [A B]. exact (encode_eq_spec sha256 nfkd lower A B wl wl_len ent). Qed.

  Lemma p_decode_is_spec ws : decode sha256 bip39_langs (Some wl) ws = decode_spec sha256 wl ws.
  Proof. destruct Hsha as [A B]. exact (decode_eq_spec sha256 A B wl wl_len ws). Qed.

  Lemma p_decode_ck_is_spec ws :
    decode_with_checksum sha256 bip39_langs (Some wl) ws = decode_with_checksum_spec sha256 wl ws.
  Proof. destruct Hsha as [A B]. exact (decode_with_checksum_eq_spec sha256 A B wl wl_len ws). Qed.

  Lemma p_is_valid_spec ws :
    is_valid sha256 bip39_langs (Some wl) ws =
    Ok (match decode_spec sha256 wl ws with inl _ => true | inr _ => false end).
  Proof. destruct Hsha as [A B]. exact (is_valid_spec sha256 A B wl wl_len ws). Qed.

  Lemma p_decode_accepts_iff ws e :
    decode sha256 bip39_langs (Some wl) ws = Ok e <->
    legal_word_count (length ws) = true /\
    exists idxs, sentence_indices wl ws = Some idxs /\
      let bits := sentence_bits idxs in
      let cl := (length ws / 3)%nat in
      e = bytes_of_bits (firstn (length bits - cl) bits) /\
      skipn (length bits - cl) bits = firstn cl (bits_of_bytes (sha256 e)).
  Proof. destruct Hsha as [A B]. exact (decode_accepts_iff sha256 A B wl wl_len ws e). Qed.

  Lemma p_words_listed ws : (exists idxs, sentence_indices wl ws = Some idxs) <-> Forall (fun w => In w wl) ws.
  Proof. exact (sentence_indices_iff wl ws). Qed.

  Lemma p_decode_error_classes ws x : decode sha256 bip39_langs (Some wl) ws = Err x ->
    (x = ValueError /\ (legal_word_count (length ws) = false \/ ~ Forall (fun w => In w wl) ws)) \/
    (x = LibError MnemonicChecksumError /\ legal_word_count (length ws) = true /\ Forall (fun w => In w wl) ws).
  Proof. destruct Hsha as [A B]. exact (decode_error_classes sha256 A B wl wl_len ws x). Qed.

  Hypothesis Hnf : normal_form nfkd lower wl.

  Lemma p_encode_is_spec ent : bytes_ok ent ->
    encode sha256 nfkd lower wl ent = encode_spec sha256 wl ent.
  Proof. destruct Hsha as [A B]. exact (encode_is_spec sha256 nfkd lower A B wl wl_len Hnf ent). Qed.

  Lemma p_encode_is_bit_groups ent : bytes_ok ent -> legal_entropy_len (length ent) = true ->
    let bits := bits_of_bytes ent ++ firstn (length ent / 4) (bits_of_bytes (sha256 ent)) in
    encode sha256 nfkd lower wl ent =
    Ok (map (fun i => nth (N.to_nat (bits_to_N (firstn 11 (skipn (11 * i) bits)))) wl [])
            (seq 0 (length bits / 11))).
  Proof.
    intros Hb Hl bits. rewrite p_encode_is_spec by exact Hb. unfold encode_spec. rewrite Hl.
    unfold Ok. f_equal. fold bits. change (mnemonic_bits sha256 ent) with bits.
    rewrite groups_seq by lia. rewrite map_map. reflexivity.
  Qed.

  Lemma p_decode_encode ent ws : bytes_ok ent ->
    encode sha256 nfkd lower wl ent = Ok ws -> decode sha256 bip39_langs (Some wl) ws = Ok ent.
  Proof.
    destruct Hsha as [A B]. exact (decode_encode sha256 nfkd lower A B wl wl_len wl_nodup Hnf ent ws).
  Qed.

  Lemma p_encode_total ent : bytes_ok ent -> legal_entropy_len (length ent) = true ->
    exists ws, encode sha256 nfkd lower wl ent = Ok ws /\ length ws = (length ent * 3 / 4)%nat.
  Proof. destruct Hsha as [A B]. exact (encode_total sha256 nfkd lower A B wl wl_len Hnf ent). Qed.

  Lemma p_encode_decode_canonical ws e : decode sha256 bip39_langs (Some wl) ws = Ok e ->
    encode sha256 nfkd lower wl e = Ok ws /\ bytes_ok e /\ legal_entropy_len (length e) = true.
  Proof.
    destruct Hsha as [A B]. exact (encode_decode_canonical sha256 nfkd lower A B wl wl_len Hnf ws e).
  Qed.

  Lemma p_encode_words_listed ent ws : bytes_ok ent ->
    encode sha256 nfkd lower wl ent = Ok ws -> Forall (fun w => In w wl) ws.
  Proof.
    intros Hb E. rewrite p_encode_is_spec in E by exact Hb. destruct Hsha as [A B].
    exact (encode_spec_words_in sha256 A wl wl_len ent ws E).
  Qed.

  (* ---- str arguments: Bip39Mnemonic.FromString undoes any white-space layout of listed words ---- *)
  Lemma listed_words_plain ws : Forall (fun w => In w wl) ws -> Forall plain ws.
  Proof.
    intros H. pose proof (proj2 (proj2 (proj2 (bip39_list_ok wl Hwl)))) as P.
    pose proof (proj1 (Forall_forall _ _) H) as H'. pose proof (proj1 (Forall_forall _ _) P) as P'.
    apply Forall_forall. intros w Hw. destruct (P' w (H' w Hw)) as [Hne Hc]. split; [exact Hne|].
    pose proof (proj1 (Forall_forall _ _) Hc) as Hc'.
    apply Forall_forall. intros c Hcw. exact (proj1 (Hc' c Hcw)).
  Qed.

  Lemma p_normalize_layout ws seps lead trail : Forall (fun w => In w wl) ws ->
    Forall (fun sp => sp <> [] /\ all_space sp) seps -> all_space lead -> all_space trail ->
    normalize nfkd lower (lead ++ join_with seps ws ++ trail) = ws.
  Proof.
    intros H Hs Hl Ht. unfold normalize. rewrite split_join_with; try assumption; [|apply listed_words_plain; exact H].
    unfold normalize_list. apply map_id_in. intros w Hw. apply Hnf. rewrite Forall_forall in H. auto.
  Qed.

  Lemma p_decode_str_encode ent ws seps lead trail : bytes_ok ent ->
    encode sha256 nfkd lower wl ent = Ok ws ->
    Forall (fun sp => sp <> [] /\ all_space sp) seps -> all_space lead -> all_space trail ->
    decode_str sha256 nfkd lower bip39_langs (Some wl) (lead ++ join_with seps ws ++ trail) = Ok ent.
  Proof.
    intros Hb E Hs Hl Ht. unfold decode_str.
    rewrite p_normalize_layout by (try assumption; exact (p_encode_words_listed ent ws Hb E)).
    exact (p_decode_encode ent ws Hb E).
  Qed.

  (* with the language auto-detected: the round trip for every language but French *)
  Lemma p_decode_encode_auto ent ws : wl <> wl_bip39_french -> bytes_ok ent ->
    encode sha256 nfkd lower wl ent = Ok ws -> decode sha256 bip39_langs None ws = Ok ent.
  Proof.
    intros Hfr Hb E. destruct (In_nth_error _ _ Hwl) as [k Hk].
    assert (Hkfr : k <> lang_french).
    { intros ->. unfold lang_french in Hk. simpl in Hk. inversion Hk. congruence. }
    destruct (autodetect_total_for sha256 k wl ws Hk Hkfr (p_encode_words_listed ent ws Hb E)) as [H _].
    rewrite H. exact (p_decode_encode ent ws Hb E).
  Qed.

  (* French too, unless every word of the sentence is also an English word *)
  Lemma p_decode_encode_auto_french ent ws : wl = wl_bip39_french -> bytes_ok ent ->
    encode sha256 nfkd lower wl ent = Ok ws -> ~ Forall (fun w => In w wl_bip39_english) ws ->
    decode sha256 bip39_langs None ws = Ok ent.
  Proof.
    intros Hfr Hb E Hne. pose proof (p_encode_words_listed ent ws Hb E) as Hf. rewrite Hfr in Hf.
    destruct (autodetect_french_partial sha256 ws Hf Hne) as [H _]. rewrite H, <- Hfr.
    exact (p_decode_encode ent ws Hb E).
  Qed.
End P.

Lemma overlap_table :
  (forall j k, (j < k)%nat -> (k < 9)%nat -> overlapping j k = false -> disjoint (lang_at j) (lang_at k)) /\
  (length (shared wl_bip39_chinese_simplified wl_bip39_chinese_traditional) = 1275%nat /\
   compatible wl_bip39_chinese_simplified wl_bip39_chinese_traditional) /\
  (length (shared wl_bip39_english wl_bip39_french) = 100%nat /\
   forall w i j, In w (shared wl_bip39_english wl_bip39_french) ->
                 word_index wl_bip39_english w = Some i -> word_index wl_bip39_french w = Some j -> i <> j).
Proof.
  split; [exact bip39_disjoint|]. split.
  - split; [exact (proj1 zh_shared)|].
    exact (bip39_compat lang_chinese_simplified lang_chinese_traditional ltac:(unfold lang_chinese_simplified, lang_chinese_traditional; lia)
             ltac:(unfold lang_chinese_traditional; lia) ltac:(discriminate)).
  - split; [exact (proj1 en_fr_shared)|]. intros w i j Hw Hi Hj.
    destruct en_fr_shared as [_ H]. rewrite forallb_forall in H.
    specialize (H (word_index wl_bip39_english w, word_index wl_bip39_french w)).
    rewrite Hi, Hj in H. intros ->.
    assert (Hin : In (Some j, Some j) (index_pairs wl_bip39_english wl_bip39_french)).
    { unfold index_pairs. apply in_map_iff. exists w. rewrite Hi, Hj. auto. }
    specialize (H Hin). rewrite Nat.eqb_refl in H. discriminate.
Qed.

Lemma hyps_example : exists sha256 nfkd lower, sha_ok sha256 /\ forall wl, normal_form nfkd lower wl.
Proof.
  exists (fun _ => repeat 0 32), (fun s => s), (fun s => s). split.
  - split; intros x; [reflexivity|]. unfold bytes_ok. apply Forall_forall. intros b Hb.
    apply repeat_spec in Hb. subst. reflexivity.
  - intros wl w _. reflexivity.
Qed.

Lemma roundtrip_example :
  let sha := fun _ : list N => repeat 0 32 in
  let id := fun s : list N => s in
  let ws := repeat (nth 0 wl_bip39_english []) 12 in
  encode sha id id wl_bip39_english (repeat 0 16) = Ok ws /\
  decode sha bip39_langs (Some wl_bip39_english) ws = Ok (repeat 0 16) /\
  decode sha bip39_langs None ws = Ok (repeat 0 16) /\
  decode sha bip39_langs (Some wl_bip39_english) (repeat (nth 1 wl_bip39_english []) 12)
    = Err (LibError MnemonicChecksumError) /\
  decode sha bip39_langs None (repeat (nth 0 wl_bip39_english []) 11) = Err ValueError.
Proof. vm_compute. repeat split; reflexivity. Qed.

(* C14 no-escape lemmas: address decoders.
   Part 1 (Model/AddrB58.v: Base58 / Base58Check / hex pipelines) is unconditional, for arbitrary hash and key-validity
   oracles.  NeoAddrDecoder's IndexError branch (dec[0] on an empty payload) is shown unreachable: the length check
   before it demands 20 + len(ver) >= 20 bytes.
   Part 2 (Model/AddrText.v: pipelines over the Bech32 / SegWit / CashAddr / Base32 / SS58 text codecs, which are
   Section variables there) is proved RELATIVE to the hypothesis that the codec decoder used stays in the family;
   XlmAddrDecoder's IndexError branch is unreachable after its length check.
   Part 3 instantiates part 2 with the merged Base32 and SS58 codec models, whose no-escape is a theorem
   (Lemmas/NoEscape.v): those decoders are unconditional again.  The Bech32 / SegWit / CashAddr instantiations are to
   be added the same way once those codec models are merged (see bech32_pipeline_pattern at the end). *)
From Coq Require Import NArith ZArith Arith List Bool Lia.
From BU Require Import Base.Exn Base.Bytes Gen.Consts Gen.AddrConsts Gen.AddrTextConsts Model.Base58 Model.AddrUtils
                       Model.AddrB58 Model.AddrText.
From BU Require Model.Codecs.
From BU Require Import Lemmas.NoEscape.
Import ListNotations.

(* ------------------------------------------------------------------ AddrDecUtils helpers *)
Lemma validate_and_remove_prefix_family a p : in_family (validate_and_remove_prefix a p) = true.
Proof. unfold validate_and_remove_prefix. fam. Qed.
Lemma validate_length_family a n : in_family (validate_length a n) = true.
Proof. unfold validate_length. fam. Qed.
Lemma validate_checksum_family p c f : in_family (validate_checksum p c f) = true.
Proof. unfold validate_checksum. fam. Qed.
Lemma checksum_to_value_error_family {A} (r : res A) : in_family r = true -> in_family (checksum_to_value_error r) = true.
Proof. destruct r as [x|e]; [auto|]. destruct e as [| | | | | | | |l| |]; simpl; auto. destruct l; auto. Qed.
Lemma validate_length_ok a n u : validate_length a n = Ok u -> length a = n.
Proof. unfold validate_length. destruct (Nat.eqb_spec (length a) n); [auto|discriminate]. Qed.

Lemma from_hex_family : forall n s, (length s <= n)%nat -> in_family (from_hex s) = true.
Proof.
  induction n as [|n IH]; intros s L.
  - destruct s; [reflexivity|simpl in L; lia].
  - destruct s as [|a [|b t]]; [reflexivity|reflexivity|]. cbn [from_hex]. fam.
    apply IH. simpl in L. lia.
Qed.
Lemma from_hex_family' s : in_family (from_hex s) = true.
Proof. eapply from_hex_family; reflexivity. Qed.

Ltac addr_fam :=
  fam; try apply validate_and_remove_prefix_family; try apply validate_length_family;
  try apply validate_checksum_family; try apply from_hex_family'; try apply b58_decode_family.

(* ------------------------------------------------------------------ part 1: Base58 / hex decoders *)
Section B58.
  Variables sha256 ripemd160 keccak256 : list N -> list N.
  Variable blake2b : nat -> list N -> list N.
  Variable valid_pub : list N -> bool.

  Lemma b58c_dec_family alph s : in_family (b58c_dec sha256 alph s) = true.
  Proof. unfold b58c_dec. apply checksum_to_value_error_family, b58_check_decode_family. Qed.

  Lemma fam_a_decode_family alph prefix dlen addr : in_family (fam_a_decode sha256 alph prefix dlen addr) = true.
  Proof. unfold fam_a_decode. addr_fam. apply b58c_dec_family. Qed.

  (* P2PKHAddrDecoder / P2SHAddrDecoder / XrpAddrDecoder / XtzAddrDecoder .DecodeAddr *)
  Lemma p2pkh_decode_family alph nv addr : in_family (p2pkh_decode sha256 alph nv addr) = true.
  Proof. apply fam_a_decode_family. Qed.
  Lemma p2sh_decode_family nv addr : in_family (p2sh_decode sha256 nv addr) = true.
  Proof. apply fam_a_decode_family. Qed.
  Lemma xrp_decode_family addr : in_family (xrp_decode sha256 addr) = true.
  Proof. apply fam_a_decode_family. Qed.
  Lemma xtz_decode_family prefix addr : in_family (xtz_decode sha256 prefix addr) = true.
  Proof. apply fam_a_decode_family. Qed.

  (* NeoLegacyAddrDecoder / NeoN3AddrDecoder: the IndexError of dec[0] is unreachable *)
  Lemma neo_decode_family ver addr : in_family (neo_decode sha256 ver addr) = true.
  Proof.
    unfold neo_decode. apply fam_bind; [apply b58c_dec_family|]. intros dec _.
    destruct (validate_length dec (hash160_len + length ver)) as [u|e] eqn:V;
      [|pose proof (validate_length_family dec (hash160_len + length ver)) as F; rewrite V in F; exact F].
    cbn [bind]. apply validate_length_ok in V. destruct dec as [|v0 rest].
    - simpl in V. unfold hash160_len in V. lia.
    - fam.
  Qed.

  (* EosAddrDecoder / ErgoP2PKHAddrDecoder / SolAddrDecoder *)
  Lemma eos_decode_family addr : in_family (eos_decode ripemd160 valid_pub addr) = true.
  Proof. unfold eos_decode, split_by_checksum. addr_fam. Qed.
  Lemma ergo_decode_family net addr : in_family (ergo_decode blake2b valid_pub net addr) = true.
  Proof. unfold ergo_decode, split_by_checksum. addr_fam. Qed.
  Lemma sol_decode_family addr : in_family (sol_decode valid_pub addr) = true.
  Proof. unfold sol_decode. addr_fam. Qed.

  (* EthAddrDecoder / TrxAddrDecoder / IcxAddrDecoder / NearAddrDecoder / SuiAddrDecoder / AptosAddrDecoder *)
  Lemma eth_decode_family skip addr : in_family (eth_decode keccak256 skip addr) = true.
  Proof. unfold eth_decode. addr_fam. Qed.
  Lemma trx_decode_family addr : in_family (trx_decode sha256 keccak256 addr) = true.
  Proof. unfold trx_decode. addr_fam; try apply b58c_dec_family; apply eth_decode_family. Qed.
  Lemma icx_decode_family addr : in_family (icx_decode addr) = true.
  Proof. unfold icx_decode. addr_fam. Qed.
  Lemma near_decode_family addr : in_family (near_decode valid_pub addr) = true.
  Proof. unfold near_decode. addr_fam. Qed.
  Lemma sui_decode_family addr : in_family (sui_decode addr) = true.
  Proof. unfold sui_decode. addr_fam. Qed.
  Lemma aptos_decode_family addr : in_family (aptos_decode addr) = true.
  Proof. unfold aptos_decode. addr_fam. Qed.
End B58.

(* ------------------------------------------------------------------ part 2: pipelines over abstract text codecs *)
Section Text.
  Variables keccak256 sha512_256 : list N -> list N.
  Variable blake2b : nat -> list N -> list N.
  Variable valid_pub : N -> list N -> bool.
  Variable crc16_xmodem : list N -> list N.
  Variable bech32_dec : list N -> list N -> res (list N).
  Variable segwit_dec : list N -> list N -> res (N * list N).
  Variable cash_dec : list N -> list N -> res (list N * list N).
  Variable b32_enc_nopad : option (list N) -> list N -> res (list N).
  Variable b32_dec : option (list N) -> list N -> res (list N).
  Variable ss58_dec : list N -> res (N * list N).

  Section Bech32.
    Hypothesis bech32_dec_family : forall hrp s, in_family (bech32_dec hrp s) = true.

    Lemma bech32_fixed_decode_family hrp n addr : in_family (bech32_fixed_decode bech32_dec hrp n addr) = true.
    Proof.
      unfold bech32_fixed_decode. addr_fam. apply checksum_to_value_error_family, bech32_dec_family.
    Qed.
    (* AtomAddrDecoder (and the coins sharing it) / AvaxPChain, AvaxXChain / Egld / Inj / Okex, One / Zil *)
    Lemma atom_decode_family hrp addr : in_family (atom_decode bech32_dec hrp addr) = true.
    Proof. apply bech32_fixed_decode_family. Qed.
    Lemma avax_decode_family prefix hrp addr : in_family (avax_decode bech32_dec prefix hrp addr) = true.
    Proof. unfold avax_decode. addr_fam. apply atom_decode_family. Qed.
    Lemma egld_decode_family addr : in_family (egld_decode valid_pub bech32_dec addr) = true.
    Proof. unfold egld_decode. addr_fam. apply bech32_fixed_decode_family. Qed.
    Lemma inj_decode_family addr : in_family (inj_decode bech32_dec addr) = true.
    Proof. apply bech32_fixed_decode_family. Qed.
    Lemma ethb32_decode_family hrp addr : in_family (ethb32_decode keccak256 bech32_dec hrp addr) = true.
    Proof.
      unfold ethb32_decode. addr_fam; [apply checksum_to_value_error_family, bech32_dec_family|apply eth_decode_family].
    Qed.
    Lemma zil_decode_family addr : in_family (zil_decode bech32_dec addr) = true.
    Proof. apply bech32_fixed_decode_family. Qed.
  End Bech32.

  Section SegWit.
    Hypothesis segwit_dec_family : forall hrp s, in_family (segwit_dec hrp s) = true.
    (* P2WPKHAddrDecoder / P2TRAddrDecoder *)
    Lemma p2wpkh_decode_family hrp addr : in_family (p2wpkh_decode segwit_dec hrp addr) = true.
    Proof. unfold p2wpkh_decode. addr_fam. apply checksum_to_value_error_family, segwit_dec_family. Qed.
    Lemma p2tr_decode_family hrp addr : in_family (p2tr_decode segwit_dec hrp addr) = true.
    Proof. unfold p2tr_decode. addr_fam. apply checksum_to_value_error_family, segwit_dec_family. Qed.
  End SegWit.

  Section CashAddr.
    Hypothesis cash_dec_family : forall hrp s, in_family (cash_dec hrp s) = true.
    (* BchP2PKHAddrDecoder / BchP2SHAddrDecoder *)
    Lemma bch_decode_family hrp nv addr : in_family (bch_decode cash_dec hrp nv addr) = true.
    Proof. unfold bch_decode. addr_fam. apply checksum_to_value_error_family, cash_dec_family. Qed.
  End CashAddr.

  Section Base32.
    Hypothesis b32_dec_family : forall c s, in_family (b32_dec c s) = true.
    (* the canonical-form test of the Algorand / Filecoin decoders re-encodes the decoded bytes *)
    Hypothesis b32_enc_family : forall c d, in_family (b32_enc_nopad c d) = true.
    Lemma canonical_b32_family c d t : in_family (canonical_b32 b32_enc_nopad c d t) = true.
    Proof. unfold canonical_b32. fam. apply b32_enc_family. Qed.
    (* AlgoAddrDecoder *)
    Lemma algo_addr_decode_family addr : in_family (algo_decode sha512_256 valid_pub b32_enc_nopad b32_dec addr) = true.
    Proof. unfold algo_decode, split_by_checksum. addr_fam; try apply canonical_b32_family. apply b32_dec_family. Qed.
    (* XlmAddrDecoder: payload[0] after the length check (35 bytes, 2 of them checksum) cannot fail *)
    Lemma xlm_decode_family ty addr : in_family (xlm_decode valid_pub crc16_xmodem b32_dec ty addr) = true.
    Proof.
      unfold xlm_decode. apply fam_bind; [apply b32_dec_family|]. intros d _.
      destruct (validate_length d (ed25519_compr_len + xlm_cklen)) as [u|e] eqn:V;
        [|pose proof (validate_length_family d (ed25519_compr_len + xlm_cklen)) as F; rewrite V in F; exact F].
      cbn [bind]. apply validate_length_ok in V. unfold split_by_checksum.
      destruct (drop_last xlm_cklen d) as [|t pub] eqn:P.
      - exfalso. apply (f_equal (@length N)) in P. unfold drop_last in P. rewrite firstn_length in P.
        rewrite V in P. unfold ed25519_compr_len, xlm_cklen in P. simpl in P. lia.
      - addr_fam.
    Qed.
    (* FilSecp256k1AddrDecoder / NanoAddrDecoder / NimAddrDecoder *)
    Lemma fil_decode_family addr : in_family (fil_decode blake2b b32_enc_nopad b32_dec addr) = true.
    Proof. unfold fil_decode, split_by_checksum. addr_fam; try apply canonical_b32_family. apply b32_dec_family. Qed.
    Lemma nano_decode_family addr : in_family (nano_decode blake2b valid_pub b32_dec addr) = true.
    Proof. unfold nano_decode, split_by_checksum. addr_fam. apply b32_dec_family. Qed.
    Lemma nim_decode_family addr : in_family (nim_decode b32_dec addr) = true.
    Proof. unfold nim_decode. addr_fam. apply b32_dec_family. Qed.
  End Base32.

  Section SS58.
    Hypothesis ss58_dec_family : forall s, in_family (ss58_dec s) = true.
    (* SubstrateEd25519AddrDecoder / SubstrateSr25519AddrDecoder *)
    Lemma substrate_decode_family curve fmt addr : in_family (substrate_decode valid_pub ss58_dec curve fmt addr) = true.
    Proof. unfold substrate_decode. addr_fam. apply checksum_to_value_error_family, ss58_dec_family. Qed.
  End SS58.
End Text.

(* ------------------------------------------------------------------ part 3: instantiation with merged codec models *)
(* Base32Decoder.Decode(data, custom_alphabet) and SS58Decoder.Decode as the address layer calls them *)
Definition b32_dec_model (c : option (list N)) (s : list N) : res (list N) := Codecs.b32_decode s c.
Definition ss58_dec_model (blake2b512 : list N -> list N) (s : list N) : res (N * list N) := Codecs.ss58_decode blake2b512 s.

Lemma b32_dec_model_family c s : in_family (b32_dec_model c s) = true.
Proof. apply b32_decode_family. Qed.

(* Base32Encoder.EncodeNoPadding(data, custom_alphabet) as the canonical-form test of the address layer calls it:
   a value that is no byte, or a custom alphabet of the wrong length, is a ValueError; nothing else *)
Definition b32_enc_model (c : option (list N)) (d : list N) : res (list N) := Codecs.b32_encode_no_padding d c.
Lemma b32_enc_model_family c d : in_family (b32_enc_model c d) = true.
Proof.
  unfold b32_enc_model, Codecs.b32_encode_no_padding, Base32.encode_no_padding, Base32.encode, Base32.b32encode.
  destruct (Lemmas.ConvertBits.range_dec 8 d) as [Hd|Hd].
  - destruct (Lemmas.ConvertBits.convert_pad_spec 8 5 eq_refl eq_refl d Hd) as (l & p & E & _). rewrite E.
    cbn [ConvertBits.none_is_value_error bind Ok]. destruct c as [c|]; [|reflexivity].
    unfold Base32.translate. destruct (_ =? _)%nat; reflexivity.
  - rewrite (Lemmas.ConvertBits.convert_range 8 5 eq_refl eq_refl d true Hd). reflexivity.
Qed.

Section Inst.
  Variables sha512_256 blake2b512 : list N -> list N.
  Variable blake2b : nat -> list N -> list N.
  Variable valid_pub : N -> list N -> bool.
  Variable crc16_xmodem : list N -> list N.

  Lemma algo_addr_decode_b32 addr : in_family (algo_decode sha512_256 valid_pub b32_enc_model b32_dec_model addr) = true.
  Proof. apply algo_addr_decode_family; [apply b32_dec_model_family|apply b32_enc_model_family]. Qed.
  Lemma xlm_decode_b32 ty addr : in_family (xlm_decode valid_pub crc16_xmodem b32_dec_model ty addr) = true.
  Proof. apply xlm_decode_family, b32_dec_model_family. Qed.
  Lemma fil_decode_b32 addr : in_family (fil_decode blake2b b32_enc_model b32_dec_model addr) = true.
  Proof. apply fil_decode_family; [apply b32_dec_model_family|apply b32_enc_model_family]. Qed.
  Lemma nano_decode_b32 addr : in_family (nano_decode blake2b valid_pub b32_dec_model addr) = true.
  Proof. apply nano_decode_family, b32_dec_model_family. Qed.
  Lemma nim_decode_b32 addr : in_family (nim_decode b32_dec_model addr) = true.
  Proof. apply nim_decode_family, b32_dec_model_family. Qed.
  Lemma substrate_decode_ss58 curve fmt addr :
    in_family (substrate_decode valid_pub (ss58_dec_model blake2b512) curve fmt addr) = true.
  Proof. apply substrate_decode_family. intros s. apply ss58_decode_family. Qed.
End Inst.

(* PATTERN for the Bech32 / SegWit / CashAddr pipelines once Model/Bech32*.v is merged:
     Lemma bech32_decode_family hrp s : in_family (Bech32.decode hrp s) = true.    (from its contributor's error lemma)
     Lemma atom_decode_bech32 hrp addr : in_family (atom_decode Bech32.decode hrp addr) = true.
     Proof. apply atom_decode_family. exact bech32_decode_family. Qed.
   and likewise avax / egld / inj / ethb32 / zil (bech32), p2wpkh / p2tr (segwit), bch (cashaddr). *)

(* ------------------------------------------------------------------ SPL token: SplToken.GetAssociatedTokenAddress(str, str)
   over the SolAddrDecoder model; ElectrumV1.FromPrivateKey / FromPublicKey (bytes) *)
From BU Require Model.SplToken Model.ElectrumWallet.
Section Spl.
  Variable sha256 : list N -> list N.
  Variable on_curve valid_pub : list N -> bool.
  Notation sol := (sol_decode valid_pub).

  Lemma find_pda_loop_family sc prog fuel : forall bump,
    in_family (SplToken.find_pda_loop sha256 on_curve sc prog bump fuel) = true.
  Proof. induction fuel as [|f IH]; intros bump; cbn [SplToken.find_pda_loop]; fam. apply IH. Qed.

  Lemma find_pda_family seeds prog :
    in_family (SplToken.find_pda b58_alph_btc b58_radix sha256 on_curve sol seeds prog) = true.
  Proof. unfold SplToken.find_pda. fam; [apply sol_decode_family|apply find_pda_loop_family]. Qed.

  Lemma get_ata_family wallet mint :
    in_family (SplToken.get_ata b58_alph_btc b58_radix sha256 on_curve sol wallet mint) = true.
  Proof.
    unfold SplToken.get_ata, SplToken.get_ata_with_program. fam; try apply sol_decode_family. apply find_pda_family.
  Qed.
End Spl.

Lemma electrum_v1_from_private_key_family (G : Type) k : in_family (ElectrumWallet.v1_from_private_key G k) = true.
Proof. unfold ElectrumWallet.v1_from_private_key. fam. Qed.
Lemma electrum_v1_from_public_key_family (G : Type) deser b : in_family (ElectrumWallet.v1_from_public_key G deser b) = true.
Proof. unfold ElectrumWallet.v1_from_public_key. fam. Qed.

(* LINK: the two models of Monero block Base58 are one function.
   Model/XmrB58.v (the C16 address model's codec, fuel recursion, total encoder) and Model/Base58Xmr.v
   (the C10/C11 codec, count recursion, [res] encoder) are proved extensionally equal on every input, for
   any table of the right length and then on the regenerated constants (the two models also read their
   constants from two independently generated files, Gen/ConstsCardmon.v and Gen/Consts.v: those are
   proved equal here too).  The C10/C11 acceptance, canonicity and error theorems are then transported to
   the codec that the Monero address decoder calls, and to the address decoder itself. *)
From Coq Require Import NArith Arith List Lia Bool.
From BU Require Import Base.Exn Base.Radix Base.Bytes Gen.Consts Gen.ConstsCardmon.
From BU Require Model.Base58 Model.XmrB58 Model.Base58Xmr Model.Codecs Model.EdLib Model.AddrXmr.
From BU Require Lemmas.XmrConstsOk Lemmas.CardmonConstsOk Lemmas.AddrXmr.
Import ListNotations.
Open Scope N_scope.

Lemma index_nat_eq x l : XmrB58.index_nat x l = Base58Xmr.index_of_nat x l.
Proof.
  induction l as [|y t IH]; [reflexivity|]. cbn [XmrB58.index_nat Base58Xmr.index_of_nat].
  rewrite (Nat.eqb_sym y x). destruct (x =? y)%nat; [reflexivity|]. rewrite IH. reflexivity.
Qed.

Lemma skipn_comp {A} a : forall b (l : list A), skipn a (skipn b l) = skipn (b + a) l.
Proof. induction b as [|b IH]; intros l; [reflexivity|]. destruct l; [rewrite !skipn_nil; reflexivity|]. cbn [skipn Nat.add]. apply IH. Qed.

Lemma bind_ret {A} (r : res A) : (x <- r ;; Ok x) = r.
Proof. destruct r; reflexivity. Qed.

Section Generic.
  Variable alph : list N.
  Variable radix : N.
  Variable dec_max enc_max : nat.
  Variable enc_lens : list nat.
  Hypothesis dec_max_pos : (0 < dec_max)%nat.
  Hypothesis enc_max_pos : (0 < enc_max)%nat.
  (* the encoder's table subscript BLOCK_ENC_BYTE_LENS[len % dec_max] is in range *)
  Hypothesis lens_len : (dec_max <= length enc_lens)%nat.

  Notation Xenc_blocks := (XmrB58.enc_blocks alph radix dec_max enc_max enc_lens).
  Notation Benc_blocks := (Base58Xmr.enc_blocks alph radix dec_max enc_max).
  Notation b58enc := (Base58.encode alph radix).
  Notation b58dec := (Base58.decode alph radix).

  Lemma rjust_pad w s : XmrB58.rjust w (XmrB58.pad_sym alph) s = Base58Xmr.pad alph w s.
  Proof. reflexivity. Qed.

  (* the partial block the count-recursive encoder appends *)
  Definition tail_block (b : list N) : list N :=
    let cnt := (length b / dec_max)%nat in
    let last := (length b mod dec_max)%nat in
    if (0 <? last)%nat
    then Base58Xmr.pad alph (nth last enc_lens 0%nat) (b58enc (slice (cnt * dec_max) (cnt * dec_max + last) b))
    else [].

  Lemma div_mod_small n : (n < dec_max)%nat -> (n / dec_max = 0 /\ n mod dec_max = n)%nat.
  Proof. intros H. split; [apply Nat.div_small; exact H|apply Nat.mod_small; exact H]. Qed.

  Lemma div_mod_step m n : (0 < m)%nat -> (m <= n)%nat ->
    (n / m = S ((n - m) / m) /\ n mod m = (n - m) mod m)%nat.
  Proof.
    intros Hm H. replace n with ((n - m) + 1 * m)%nat at 1 3 by lia.
    rewrite Nat.div_add by lia. rewrite Nat.mod_add by lia. split; lia.
  Qed.

  Lemma slice_shift (a i j : nat) (l : list N) : slice (a + i) (a + j) l = slice i j (skipn a l).
  Proof.
    unfold slice. replace (a + j - (a + i))%nat with (j - i)%nat by lia.
    rewrite skipn_comp. reflexivity.
  Qed.

  Lemma tail_block_step b : (dec_max <= length b)%nat -> tail_block b = tail_block (skipn dec_max b).
  Proof.
    intros H. unfold tail_block. rewrite skipn_length.
    destruct (div_mod_step dec_max (length b) dec_max_pos H) as [D M]. rewrite D, M.
    destruct (0 <? _)%nat; [|reflexivity]. f_equal. f_equal.
    replace (S ((length b - dec_max) / dec_max) * dec_max)%nat
      with (dec_max + (length b - dec_max) / dec_max * dec_max)%nat by (cbn [Nat.mul]; lia).
    rewrite <- Nat.add_assoc. apply slice_shift.
  Qed.

  Lemma enc_blocks_eq fuel : forall b, (length b < fuel)%nat ->
    Xenc_blocks fuel b = Benc_blocks (length b / dec_max) b ++ tail_block b.
  Proof.
    induction fuel as [|f IH]; intros b Hf; [lia|]. cbn [XmrB58.enc_blocks].
    destruct (length b <? dec_max)%nat eqn:E.
    - apply Nat.ltb_lt in E. unfold tail_block. destruct (div_mod_small _ E) as [D M]. rewrite D, M.
      cbn [Base58Xmr.enc_blocks app Nat.mul Nat.add].
      destruct b as [|x t]; [reflexivity|]. cbn [length]. cbn [Nat.ltb Nat.leb].
      unfold slice. cbn [skipn]. rewrite Nat.sub_0_r.
      replace (firstn (S (length t)) (x :: t)) with (x :: t) by (symmetry; apply (firstn_all (x :: t))).
      reflexivity.
    - apply Nat.ltb_ge in E. destruct (div_mod_step dec_max (length b) dec_max_pos E) as [D _]. rewrite D.
      cbn [Base58Xmr.enc_blocks]. rewrite <- app_assoc. f_equal.
      rewrite (tail_block_step b E). rewrite <- (skipn_length dec_max b). apply IH.
      rewrite skipn_length. lia.
  Qed.

  Theorem encode_eq b :
    Base58Xmr.encode alph radix dec_max enc_max enc_lens b = Ok (XmrB58.encode alph radix dec_max enc_max enc_lens b).
  Proof.
    unfold XmrB58.encode. rewrite enc_blocks_eq by lia. unfold Base58Xmr.encode, tail_block.
    destruct (0 <? length b mod dec_max)%nat eqn:E; [|rewrite app_nil_r; reflexivity].
    assert (Hlt : (length b mod dec_max < length enc_lens)%nat).
    { pose proof (Nat.mod_upper_bound (length b) dec_max). lia. }
    rewrite (nth_error_nth' enc_lens 0%nat Hlt). reflexivity.
  Qed.

  (* ---- decoder ---- *)
  Notation Bblk := (Base58Xmr.dec_block alph radix).
  Definition Xblk (u : nat) (t : list N) : res (list N) := d <- b58dec t ;; XmrB58.unpad d u.

  Lemma blk_eq u t : Xblk u t = Bblk u t.
  Proof.
    unfold Xblk, Base58Xmr.dec_block, Base58Xmr.b58dec. destruct (b58dec t) as [d|e]; [|reflexivity].
    cbn [bind]. unfold XmrB58.unpad, Base58Xmr.unpad.
    destruct (length (lstrip 0 d) <=? u)%nat eqn:E1; destruct (u <? length (lstrip 0 d))%nat eqn:E2; try reflexivity.
    - apply Nat.leb_le in E1. apply Nat.ltb_lt in E2. lia.
    - apply Nat.leb_gt in E1. apply Nat.ltb_ge in E2. lia.
  Qed.

  Notation Xdec_blocks := (XmrB58.dec_blocks alph radix dec_max enc_max).
  Notation Bdec_blocks := (Base58Xmr.dec_blocks dec_max enc_max Bblk).

  Definition tail_dec (ldl : nat) (s : list N) (full : list N) : res (list N) :=
    let cnt := (length s / enc_max)%nat in
    let last := (length s mod enc_max)%nat in
    if (0 <? last)%nat
    then d <- Bblk ldl (slice (cnt * enc_max) (cnt * enc_max + last) s) ;; Ok (full ++ d)
    else Ok full.

  Lemma tail_dec_step ldl s full : (enc_max <= length s)%nat -> tail_dec ldl s full = tail_dec ldl (skipn enc_max s) full.
  Proof.
    intros H. unfold tail_dec. rewrite skipn_length.
    destruct (div_mod_step enc_max (length s) enc_max_pos H) as [D M]. rewrite D, M.
    destruct (0 <? _)%nat; [|reflexivity]. f_equal. f_equal.
    replace (S ((length s - enc_max) / enc_max) * enc_max)%nat
      with (enc_max + (length s - enc_max) / enc_max * enc_max)%nat by (cbn [Nat.mul]; lia).
    rewrite <- Nat.add_assoc. apply slice_shift.
  Qed.

  Lemma tail_dec_app ldl s a full : tail_dec ldl s (a ++ full) = (r <- tail_dec ldl s full ;; Ok (a ++ r)).
  Proof.
    unfold tail_dec. destruct (0 <? _)%nat; [|reflexivity].
    destruct (Bblk ldl _) as [d|e]; [|reflexivity]. cbn [bind Ok]. rewrite app_assoc. reflexivity.
  Qed.

  Lemma dec_blocks_eq ldl fuel : forall s, (length s < fuel)%nat ->
    Xdec_blocks fuel ldl s = (full <- Bdec_blocks (length s / enc_max) s ;; tail_dec ldl s full).
  Proof.
    induction fuel as [|f IH]; intros s Hf; [lia|]. cbn [XmrB58.dec_blocks].
    destruct (length s <? enc_max)%nat eqn:E.
    - apply Nat.ltb_lt in E. unfold tail_dec.
      rewrite (Nat.div_small _ _ E), (Nat.mod_small _ _ E). cbn [Base58Xmr.dec_blocks bind Ok Nat.mul Nat.add].
      destruct s as [|x t]; [reflexivity|]. cbn [length Nat.ltb Nat.leb app].
      unfold slice. cbn [skipn]. rewrite Nat.sub_0_r.
      replace (firstn (S (length t)) (x :: t)) with (x :: t) by (symmetry; apply (firstn_all (x :: t))).
      rewrite bind_ret. apply blk_eq.
    - apply Nat.ltb_ge in E. destruct (div_mod_step enc_max (length s) enc_max_pos E) as [D _]. rewrite D.
      cbn [Base58Xmr.dec_blocks].
      assert (A : forall (k : list N -> res (list N)),
                 (d <- b58dec (firstn enc_max s) ;; blk <- XmrB58.unpad d dec_max ;; k blk) =
                 (blk <- Xblk dec_max (firstn enc_max s) ;; k blk)).
      { intros k. unfold Xblk. destruct (b58dec (firstn enc_max s)); reflexivity. }
      rewrite A, blk_eq. destruct (Bblk dec_max (firstn enc_max s)) as [blk|e]; [|reflexivity]. cbn [bind].
      rewrite IH by (rewrite skipn_length; lia). rewrite skipn_length.
      destruct (Bdec_blocks ((length s - enc_max) / enc_max) (skipn enc_max s)) as [full|e]; [|reflexivity].
      cbn [bind Ok]. rewrite (tail_dec_step ldl s (blk ++ full) E), tail_dec_app. reflexivity.
  Qed.

  Theorem decode_eq s :
    XmrB58.decode alph radix dec_max enc_max enc_lens s = Base58Xmr.decode alph radix dec_max enc_max enc_lens s.
  Proof.
    unfold XmrB58.decode, Base58Xmr.decode, Base58Xmr.decode_gen. rewrite index_nat_eq.
    destruct (Base58Xmr.index_of_nat _ _) as [ldl|]; [|reflexivity]. cbn [of_option bind Ok].
    rewrite dec_blocks_eq by lia. reflexivity.
  Qed.
End Generic.

(* ------------------------------------------------------------------ on the regenerated constants *)
(* the two generators read the same source constants *)
Lemma consts_agree :
  xb58_alph = xmr_alph /\ xb58_radix = b58_radix /\ xb58_block_dec_max = xmr_block_dec_max /\
  xb58_block_enc_max = xmr_block_enc_max /\ xb58_block_enc_lens = xmr_block_enc_lens.
Proof. repeat split; vm_compute; reflexivity. Qed.

Notation b58x_encode := AddrXmr.b58x_encode.
Notation b58x_decode := AddrXmr.b58x_decode.
Notation xmr_encode := Codecs.xmr_encode.
Notation xmr_decode := Codecs.xmr_decode.

Lemma xmr_lens_len : (xmr_block_dec_max <= length xmr_block_enc_lens)%nat.
Proof. rewrite XmrConstsOk.xmr_table_len. lia. Qed.
Lemma xmr_enc_max_pos : (0 < xmr_block_enc_max)%nat.
Proof. vm_compute. lia. Qed.

(* the encoder of the address model is the C11 encoder (which therefore never raises) *)
Theorem b58x_encode_eq b : xmr_encode b = Ok (b58x_encode b).
Proof.
  unfold AddrXmr.b58x_encode. destruct consts_agree as (-> & -> & -> & -> & ->).
  apply encode_eq; auto using XmrConstsOk.xmr_dec_max_pos, xmr_lens_len, xmr_enc_max_pos.
Qed.

(* the decoder of the address model is the C10/C11 decoder, on every string *)
Theorem b58x_decode_eq s : b58x_decode s = xmr_decode s.
Proof.
  unfold AddrXmr.b58x_decode. destruct consts_agree as (-> & -> & -> & -> & ->).
  apply decode_eq; auto using XmrConstsOk.xmr_dec_max_pos, xmr_lens_len, xmr_enc_max_pos.
Qed.

(* ---- transported: acceptance, canonicity, error class *)
Theorem b58x_accepts_iff s : (exists b, b58x_decode s = Ok b) <-> (exists b, bytes_ok b /\ b58x_encode b = s).
Proof.
  rewrite b58x_decode_eq. rewrite XmrConstsOk.xmr_decode_accepts_iff.
  split; intros (b & Hb & E); exists b; (split; [exact Hb|]).
  - rewrite b58x_encode_eq in E. unfold Ok in E. congruence.
  - rewrite b58x_encode_eq, E. reflexivity.
Qed.

Theorem b58x_encode_decode s b : b58x_decode s = Ok b -> b58x_encode b = s /\ bytes_ok b.
Proof.
  rewrite b58x_decode_eq. intros H. destruct (XmrConstsOk.xmr_encode_decode s b H) as [E Hb].
  split; [|exact Hb]. rewrite b58x_encode_eq in E. unfold Ok in E. congruence.
Qed.

Theorem b58x_decode_err s e : b58x_decode s = Err e -> e = ValueError.
Proof. rewrite b58x_decode_eq. apply XmrConstsOk.xmr_decode_err. Qed.

Theorem b58x_encode_inj b1 b2 : bytes_ok b1 -> bytes_ok b2 -> b58x_encode b1 = b58x_encode b2 -> b1 = b2.
Proof.
  intros H1 H2 E. apply (XmrConstsOk.xmr_encode_inj b1 b2 (b58x_encode b1) H1 H2); [apply b58x_encode_eq|].
  rewrite E. apply b58x_encode_eq.
Qed.

(* ------------------------------------------------------------------ the Monero address decoder *)
(* Only what follows from the decoder's first step (Base58XmrDecoder.Decode on the whole string) is stated here, so
   that it survives changes to the checks the decoder performs afterwards; the exact acceptance condition on the
   decoded bytes is in Lemmas/LinkXmrAddr.v. *)
Section Addr.
  Variable keccak : list N -> list N.
  Variable G : Type.
  Variable pdec : list N -> option G.

  Notation decode_addr := (AddrXmr.decode_addr keccak G pdec).

  (* an accepted address string is THE canonical block-Base58 spelling of a byte string: no second spelling *)
  Theorem decode_addr_canonical addr net payid r :
    decode_addr addr net payid = Ok r ->
    exists dec, bytes_ok dec /\ b58x_decode addr = Ok dec /\ b58x_encode dec = addr.
  Proof.
    intros H. destruct (b58x_decode addr) as [dec|e] eqn:D.
    - exists dec. destruct (b58x_encode_decode addr dec D) as [E B]. auto.
    - unfold AddrXmr.decode_addr in H. rewrite D in H. discriminate.
  Qed.

  (* ... so acceptance is a property of the decoded BYTES: the decoder accepts a string iff it is the canonical
     encoding of some byte string whose canonical encoding it accepts *)
  Theorem decode_addr_accepts_iff_canonical addr net payid r :
    decode_addr addr net payid = Ok r <->
    exists dec, bytes_ok dec /\ b58x_encode dec = addr /\ decode_addr (b58x_encode dec) net payid = Ok r.
  Proof.
    split.
    - intros H. destruct (decode_addr_canonical addr net payid r H) as (dec & B & _ & E).
      exists dec. split; [exact B|]. split; [exact E|]. rewrite E. exact H.
    - intros (dec & _ & E & H). rewrite E in H. exact H.
  Qed.
End Addr.

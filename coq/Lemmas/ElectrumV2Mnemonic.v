(* Proofs about Model/ElectrumV2Mnemonic.v. *)
From Coq Require Import NArith Arith List Lia Bool.
From BU Require Import Base.Exn Base.Radix Base.Bytes Model.MnemWords Model.MnemText Model.ElectrumV2Mnemonic
  Lemmas.MnemWords.
Import ListNotations.
Open Scope N_scope.

Local Arguments N.pow : simpl never.
Local Arguments N.mul : simpl never.
Local Arguments N.add : simpl never.
Local Arguments N.log2 : simpl never.
Local Arguments N.size : simpl never.
Local Arguments N.of_nat : simpl never.
Local Arguments to_le : simpl never.
Local Arguments from_le : simpl never.

Lemma r2048 : 2 <= 2048. Proof. lia. Qed.

Lemma be_to_int_auto v : be_to_int (int_to_be_auto v) = v.
Proof.
  unfold int_to_be_auto, int_to_be_fixed, int_to_le_fixed, get_bytes_number.
  destruct (Nat.leb_spec (length (to_le 256 v)) (Nat.max 1 (length (to_le 256 v)))) as [_|]; [|lia].
  simpl. unfold be_to_int, from_be. rewrite rev_involutive, (from_le_pad 256 r256). apply (from_to_le 256 r256).
Qed.

(* ---- words <-> indices over a duplicate-free list ---- *)
Lemma words_of_idx wl idx ws : NoDup wl -> mapM (word_at wl) idx = Ok ws ->
  mapM (word_idx wl) ws = Ok idx /\ length ws = length idx /\ Forall (fun w => In w wl) ws.
Proof.
  intros Hnd. revert ws; induction idx as [|i idx IH]; simpl; intros ws E.
  - inversion E. repeat split; constructor.
  - destruct (word_at wl i) as [w|] eqn:W; simpl in E; [|discriminate].
    destruct (mapM (word_at wl) idx) as [t|] eqn:M; simpl in E; [|discriminate]. inversion E as [Ews].
    destruct (IH t eq_refl) as (A & B & C). destruct (word_at_idx wl i w Hnd W) as [I _].
    simpl. rewrite I, A. simpl. repeat split; [congruence|].
    constructor; [apply word_idx_ok_iff; eauto|assumption].
Qed.

Lemma idx_of_words wl ws idx : mapM (word_idx wl) ws = Ok idx ->
  digits_ok (wl_len wl) idx /\ mapM (word_at wl) idx = Ok ws /\ length idx = length ws /\
  Forall (fun w => In w wl) ws.
Proof.
  revert idx; induction ws as [|w ws IH]; simpl; intros idx E.
  - inversion E. repeat split; constructor.
  - destruct (word_idx wl w) as [i|] eqn:I; simpl in E; [|discriminate].
    destruct (mapM (word_idx wl) ws) as [t|] eqn:M; simpl in E; [|discriminate]. inversion E as [Ei].
    destruct (IH t eq_refl) as (D & A & L & F). destruct (word_idx_at _ _ _ I) as [W Lt].
    simpl. rewrite W, A. simpl. repeat split; try constructor; auto. apply word_idx_ok_iff; eauto.
Qed.

Lemma word_at_digits wl ds : digits_ok (wl_len wl) ds -> exists ws, mapM (word_at wl) ds = Ok ws.
Proof.
  induction 1 as [|d ds Hd _ [ws E]]; [exists []; reflexivity|].
  destruct (word_at_total wl d Hd) as [w W]. exists (w :: ws). simpl. rewrite W, E. reflexivity.
Qed.

Lemma starts_with_existsb p ps h : In p ps -> starts_with p h = true ->
  existsb (fun q => starts_with q h) ps = true.
Proof. intros I S. apply existsb_exists. eauto. Qed.

(* ---- the gates ---- *)
Section Gates.
  Variable word_bit_len : N.
  Variable ent_bit_lens : list N.
  Hypothesis wbl_eq : word_bit_len = 11.
  Hypothesis ent_eq : ent_bit_lens = [132; 264].

  Notation gate_current := (gate_current word_bit_len ent_bit_lens).
  Notation gate_conformant := (gate_conformant word_bit_len ent_bit_lens).

  Lemma log2_band e a b : 0 < e -> (a <= N.log2 e /\ N.log2 e < b <-> 2 ^ a <= e < 2 ^ b).
  Proof.
    intros He. rewrite <- (N.log2_le_pow2 e a He), <- (N.log2_lt_pow2 e b He). tauto.
  Qed.

  Lemma gate_current_iff e :
    gate_current e = true <-> (2 ^ 121 <= e < 2 ^ 133) \/ (2 ^ 253 <= e < 2 ^ 265).
  Proof.
    unfold ElectrumV2Mnemonic.gate_current, valid_bit_len. rewrite wbl_eq, ent_eq. cbn [existsb].
    rewrite orb_false_r, orb_true_iff, !andb_true_iff, !N.leb_le.
    destruct (N.eqb_spec e 0) as [->|Hn].
    - split; [lia|]. change (2 ^ 121) with 2658455991569831745807614120560689152.
      change (2 ^ 253) with 14474011154664524427946373126085988481658748083205070504932198000989141204992. lia.
    - assert (He : 0 < e) by lia.
      rewrite <- (log2_band e 121 133 He), <- (log2_band e 253 265 He). lia.
  Qed.

  Lemma gate_conformant_iff e :
    gate_conformant e = true <-> (2 ^ 121 <= e < 2 ^ 132) \/ (2 ^ 253 <= e < 2 ^ 264).
  Proof.
    unfold ElectrumV2Mnemonic.gate_conformant. rewrite wbl_eq, ent_eq. cbn [existsb].
    rewrite orb_false_r, orb_true_iff, !andb_true_iff, !N.leb_le, !N.ltb_lt.
    destruct (N.eq_dec e 0) as [->|Hn].
    - change (N.size 0) with 0. split; [lia|].
      change (2 ^ 121) with 2658455991569831745807614120560689152.
      change (2 ^ 253) with 14474011154664524427946373126085988481658748083205070504932198000989141204992. lia.
    - assert (He : 0 < e) by lia. rewrite (N.size_log2 e Hn).
      rewrite <- (log2_band e 121 132 He), <- (log2_band e 253 264 He). lia.
  Qed.

  (* conformant implies current; the difference is exactly the bit lengths 133 and 265 (F10) *)
  Lemma gate_diff e :
    (gate_current e = true /\ gate_conformant e = false) <->
    (2 ^ 132 <= e < 2 ^ 133) \/ (2 ^ 264 <= e < 2 ^ 265).
  Proof.
    destruct (gate_conformant e) eqn:C.
    - apply gate_conformant_iff in C. split; [intros [_ Q]; discriminate|].
      assert (2 ^ 132 < 2 ^ 253) by (apply N.pow_lt_mono_r; lia).
      assert (2 ^ 121 < 2 ^ 132) by (apply N.pow_lt_mono_r; lia).
      assert (2 ^ 253 < 2 ^ 264) by (apply N.pow_lt_mono_r; lia).
      lia.
    - rewrite gate_current_iff.
      assert (Hc : ~ ((2 ^ 121 <= e < 2 ^ 132) \/ (2 ^ 253 <= e < 2 ^ 264))).
      { intro Q. apply gate_conformant_iff in Q. congruence. }
      assert (2 ^ 132 < 2 ^ 133) by (apply N.pow_lt_mono_r; lia).
      assert (2 ^ 133 < 2 ^ 253) by (apply N.pow_lt_mono_r; lia).
      assert (2 ^ 121 < 2 ^ 132) by (apply N.pow_lt_mono_r; lia).
      assert (2 ^ 253 < 2 ^ 264) by (apply N.pow_lt_mono_r; lia).
      assert (2 ^ 264 < 2 ^ 265) by (apply N.pow_lt_mono_r; lia).
      split; [intros [Q _]; lia|intros Q; split; [lia|reflexivity]].
  Qed.

  Lemma gate_conformant_current e : gate_conformant e = true -> gate_current e = true.
  Proof.
    intros C. destruct (gate_current e) eqn:G; [reflexivity|exfalso].
    apply gate_conformant_iff in C.
    assert (Q : (2 ^ 121 <= e < 2 ^ 133) \/ (2 ^ 253 <= e < 2 ^ 265)).
    { assert (2 ^ 132 < 2 ^ 133) by (apply N.pow_lt_mono_r; lia).
      assert (2 ^ 264 < 2 ^ 265) by (apply N.pow_lt_mono_r; lia). lia. }
    apply gate_current_iff in Q. congruence.
  Qed.
End Gates.

(* number of base-2048 digits *)
Lemma digits_count e k : 2048 ^ N.of_nat k <= e < 2048 ^ N.of_nat (S k) -> length (to_le 2048 e) = S k.
Proof.
  intros [Lo Hi]. pose proof (to_le_length_le 2048 r2048 e (S k) Hi) as U.
  destruct (Nat.leb_spec (length (to_le 2048 e)) k) as [Q|Q]; [|lia]. exfalso.
  pose proof (from_le_lt 2048 r2048 _ (to_le_digits 2048 r2048 e)) as B. rewrite (from_to_le 2048 r2048) in B.
  assert (2048 ^ N.of_nat (length (to_le 2048 e)) <= 2048 ^ N.of_nat k) by (apply N.pow_le_mono_r; lia).
  lia.
Qed.

Lemma p2048_11 : 2048 ^ N.of_nat 11 = 2 ^ 121. Proof. reflexivity. Qed.
Lemma p2048_12 : 2048 ^ N.of_nat 12 = 2 ^ 132. Proof. reflexivity. Qed.
Lemma p2048_13 : 2048 ^ N.of_nat 13 = 2 ^ 143. Proof. reflexivity. Qed.
Lemma p2048_23 : 2048 ^ N.of_nat 23 = 2 ^ 253. Proof. reflexivity. Qed.
Lemma p2048_24 : 2048 ^ N.of_nat 24 = 2 ^ 264. Proof. reflexivity. Qed.
Lemma p2048_25 : 2048 ^ N.of_nat 25 = 2 ^ 275. Proof. reflexivity. Qed.

Lemma digits_12_24 e : (2 ^ 121 <= e < 2 ^ 132) \/ (2 ^ 253 <= e < 2 ^ 264) ->
  length (to_le 2048 e) = 12%nat \/ length (to_le 2048 e) = 24%nat.
Proof.
  intros [H|H]; [left; apply digits_count; rewrite p2048_11, p2048_12|right; apply digits_count; rewrite p2048_23, p2048_24];
    assumption.
Qed.

Lemma digits_13_25 e : (2 ^ 132 <= e < 2 ^ 133) \/ (2 ^ 264 <= e < 2 ^ 265) ->
  length (to_le 2048 e) = 13%nat \/ length (to_le 2048 e) = 25%nat.
Proof.
  assert (2 ^ 133 < 2 ^ 143) by (apply N.pow_lt_mono_r; lia).
  assert (2 ^ 265 < 2 ^ 275) by (apply N.pow_lt_mono_r; lia).
  intros [H1|H1]; [left; apply digits_count; rewrite p2048_12, p2048_13|right; apply digits_count; rewrite p2048_24, p2048_25]; lia.
Qed.

(* ---- the codec ---- *)
Section Ev2Proofs.
  Variable b39_langs : list (list (list N)).
  Variable enc_langs : list (list (list N)).
  Variable word_nums : list N.
  Variable word_bit_len : N.
  Variable type_prefixes : list (list N).
  Variable hmac_key : list N.
  Variable ent_bit_lens : list N.
  Variable max_attempts : N.
  Variable hmac : list N -> list N -> list N.
  Variable bip39_valid : list (list N) -> bool.
  Variable ev1_valid : list (list N) -> bool.

  Hypothesis nums_eq : word_nums = [12; 24].
  Hypothesis wbl_eq : word_bit_len = 11.
  Hypothesis ent_eq : ent_bit_lens = [132; 264].
  Hypothesis enc_langs_ok : forall wl, In wl enc_langs -> NoDup wl /\ wl_len wl = 2048.
  Hypothesis b39_langs_ok : forall wl, In wl b39_langs -> NoDup wl /\ wl_len wl = 2048.
  (* an encoder language is a finder language, and no word of it occurs in an earlier finder language *)
  Hypothesis enc_langs_first : forall wl, In wl enc_langs ->
    exists pre post, b39_langs = pre ++ wl :: post /\
      forall L' w, In L' pre -> In w wl -> ~ In w L'.

  Notation gate_current := (gate_current word_bit_len ent_bit_lens).
  Notation gate_conformant := (gate_conformant word_bit_len ent_bit_lens).
  Notation is_valid := (is_valid_mnemonic type_prefixes hmac_key hmac bip39_valid ev1_valid).
  Notation encode := (encode enc_langs type_prefixes hmac_key hmac bip39_valid ev1_valid).
  Notation decode := (decode b39_langs enc_langs word_nums type_prefixes hmac_key hmac bip39_valid ev1_valid).
  Notation attempts := (attempts enc_langs type_prefixes hmac_key max_attempts hmac bip39_valid ev1_valid).
  Notation from_entropy := (from_entropy enc_langs type_prefixes hmac_key max_attempts hmac bip39_valid ev1_valid).

  Lemma nums_ok k : memb (N.of_nat k) word_nums = true <-> (k = 12 \/ k = 24)%nat.
  Proof. rewrite nums_eq. cbn [memb]. rewrite orb_false_r, orb_true_iff, !N.eqb_eq. lia. Qed.

  (* what a successful Encode means *)
  Lemma encode_ok gate ty lang b ws : encode gate ty lang b = Ok ws ->
    exists wl p, nth_error enc_langs lang = Some wl /\ nth_error type_prefixes ty = Some p /\
      gate (be_to_int b) = true /\
      mapM (word_at wl) (to_le 2048 (be_to_int b)) = Ok ws /\ is_valid ws (Some ty) = Ok true.
  Proof.
    unfold ElectrumV2Mnemonic.encode.
    destruct (nth_error type_prefixes ty) as [p|] eqn:T; simpl; [|discriminate].
    destruct (nth_error enc_langs lang) as [wl|] eqn:L; simpl; [|discriminate].
    destruct (gate (be_to_int b)) eqn:G; [|discriminate].
    rewrite (proj2 (enc_langs_ok wl (nth_error_In _ _ L))).
    destruct (mapM (word_at wl) _) as [ws'|] eqn:M; simpl; [|discriminate].
    destruct (is_valid ws' (Some ty)) as [[|]|] eqn:V; simpl; try discriminate.
    intros E. inversion E as [Ew]. rewrite <- Ew. exists wl, p. auto.
  Qed.

  Lemma encode_intro gate ty lang b wl p ws :
    nth_error enc_langs lang = Some wl -> nth_error type_prefixes ty = Some p ->
    gate (be_to_int b) = true -> mapM (word_at wl) (to_le 2048 (be_to_int b)) = Ok ws ->
    is_valid ws (Some ty) = Ok true -> encode gate ty lang b = Ok ws.
  Proof.
    intros L T G M V. unfold ElectrumV2Mnemonic.encode. rewrite T, L. simpl. rewrite G.
    rewrite (proj2 (enc_langs_ok wl (nth_error_In _ _ L))), M. simpl. rewrite V. reflexivity.
  Qed.

  (* a type-specific test implies the all-types test *)
  Lemma is_valid_any ws ty : is_valid ws (Some ty) = Ok true -> is_valid ws None = Ok true.
  Proof.
    unfold is_valid_mnemonic. destruct (bip39_valid ws || ev1_valid ws); [discriminate|].
    destruct (seed_version_hex hmac_key hmac ws) as [h|]; simpl; [|discriminate].
    destruct (nth_error type_prefixes ty) as [p|] eqn:T; simpl; [|discriminate].
    intros E. assert (S : starts_with p h = true) by (inversion E; reflexivity).
    unfold Ok. f_equal. exact (starts_with_existsb p type_prefixes h (nth_error_In _ _ T) S).
  Qed.

  Lemma is_valid_some ws : is_valid ws None = Ok true -> exists ty, is_valid ws (Some ty) = Ok true.
  Proof.
    unfold is_valid_mnemonic. destruct (bip39_valid ws || ev1_valid ws); [discriminate|].
    destruct (seed_version_hex hmac_key hmac ws) as [h|]; [|discriminate]. cbn [bind].
    intros E. assert (S : existsb (fun p => starts_with p h) type_prefixes = true) by (inversion E; reflexivity).
    apply existsb_exists in S. destruct S as (p & I & S).
    destruct (In_nth_error _ _ I) as [ty T]. exists ty. rewrite T. cbn [of_option]. rewrite bind_ok, S. reflexivity.
  Qed.

  (* unfolding the decoder *)
  Lemma decode_ok_iff ty lang ws b :
    decode ty lang ws = Ok b <->
    (match ty with Some t => exists p, nth_error type_prefixes t = Some p | None => True end /\
     (length ws = 12 \/ length ws = 24)%nat /\ is_valid ws ty = Ok true /\
     exists wl idx,
       match lang with
       | Some l => nth_error enc_langs l = Some wl
       | None => find_language (fun wl => wl) b39_langs ws = Ok wl
       end /\
       mapM (word_idx wl) ws = Ok idx /\ b = int_to_be_auto (from_le (wl_len wl) idx)).
  Proof.
    unfold ElectrumV2Mnemonic.decode. split.
    - intros H.
      assert (Ht : match ty with Some t => exists p, nth_error type_prefixes t = Some p | None => True end).
      { destruct ty as [t|]; [|exact I]. destruct (nth_error type_prefixes t); [eauto|discriminate]. }
      assert (H' : (fixed <- match lang with
             | Some l => rmap (@Some _) (of_option (nth_error enc_langs l) TypeError)
             | None => Ok None
             end ;;
             guard memb (N.of_nat (length ws)) word_nums else ValueError ;;
             v <- is_valid ws ty ;;
             guard v else ValueError ;;
             wl <- match fixed with
                   | Some wl => Ok wl
                   | None => find_language (fun wl => wl) b39_langs ws
                   end ;;
             idx <- mapM (word_idx wl) ws ;;
             Ok (int_to_be_auto (from_le (wl_len wl) idx))) = Ok b).
      { destruct ty as [t|]; [|exact H]. destruct Ht as [p Hp]. rewrite Hp in H. exact H. }
      clear H. split; [exact Ht|].
      destruct lang as [l|].
      + destruct (nth_error enc_langs l) as [wl|] eqn:L; simpl in H'; [|discriminate].
        destruct (memb _ word_nums) eqn:Mn; [|discriminate]. apply nums_ok in Mn.
        destruct (is_valid ws ty) as [[|]|] eqn:V; simpl in H'; try discriminate.
        destruct (mapM (word_idx wl) ws) as [idx|] eqn:Mi; simpl in H'; [|discriminate].
        inversion H' as [Hb]. split; [assumption|]. split; [reflexivity|]. exists wl, idx. auto.
      + simpl in H'. destruct (memb _ word_nums) eqn:Mn; [|discriminate]. apply nums_ok in Mn.
        destruct (is_valid ws ty) as [[|]|] eqn:V; simpl in H'; try discriminate.
        destruct (find_language _ b39_langs ws) as [wl|] eqn:F; simpl in H'; [|discriminate].
        destruct (mapM (word_idx wl) ws) as [idx|] eqn:Mi; simpl in H'; [|discriminate].
        inversion H' as [Hb]. split; [assumption|]. split; [reflexivity|]. exists wl, idx. auto.
    - intros (Ht & Hn & V & wl & idx & Hl & Mi & ->).
      assert (E1 : match ty with
                   | Some t => rmap (fun _ => tt) (of_option (nth_error type_prefixes t) TypeError)
                   | None => Ok tt end = Ok tt).
      { destruct ty as [t|]; [|reflexivity]. destruct Ht as [p ->]. reflexivity. }
      rewrite E1. simpl. apply nums_ok in Hn.
      destruct lang as [l|].
      + rewrite Hl. simpl. rewrite Hn, V. simpl. rewrite Mi. reflexivity.
      + simpl. rewrite Hn, V. simpl. rewrite Hl. simpl. rewrite Mi. reflexivity.
  Qed.

  (* automatic detection finds the encoder's language *)
  Lemma auto_finds wl ws : In wl enc_langs -> ws <> [] -> Forall (fun w => In w wl) ws ->
    find_language (fun wl => wl) b39_langs ws = Ok wl.
  Proof.
    intros I Hne Hin. destruct (enc_langs_first wl I) as (pre & post & -> & Hd).
    apply find_language_first; [|assumption].
    intros L' IL' Hall. destruct ws as [|w ws']; [congruence|].
    inversion Hin as [|? ? Hw _]. inversion Hall as [|? ? Hw' _]. exact (Hd L' w IL' Hw Hw').
  Qed.

  (* ---- round trip: whatever Encode returns under the conformant gate decodes to the entropy integer,
          with the same or no type restriction, with the same language or automatic detection ---- *)
  Theorem dec_enc ty lang b ws dty dlang :
    encode gate_conformant ty lang b = Ok ws ->
    dty = Some ty \/ dty = None -> dlang = Some lang \/ dlang = None ->
    (length ws = 12 \/ length ws = 24)%nat /\
    decode dty dlang ws = Ok (int_to_be_auto (be_to_int b)).
  Proof using All.
    intros E Hty Hlang. apply encode_ok in E. destruct E as (wl & p & L & T & G & M & V).
    pose proof (nth_error_In _ _ L) as Iwl. destruct (enc_langs_ok wl Iwl) as [Hnd Hlen].
    destruct (words_of_idx wl _ ws Hnd M) as (Mi & Lw & Hin).
    apply (gate_conformant_iff word_bit_len ent_bit_lens wbl_eq ent_eq) in G.
    pose proof (digits_12_24 _ G) as Hcnt. rewrite <- Lw in Hcnt.
    split; [exact Hcnt|]. apply decode_ok_iff.
    split; [destruct Hty as [->| ->]; [eauto|exact I]|]. split; [exact Hcnt|].
    split; [destruct Hty as [->| ->]; [exact V|exact (is_valid_any ws ty V)]|].
    exists wl, (to_le 2048 (be_to_int b)). split; [|split; [exact Mi|]].
    - destruct Hlang as [->| ->]; [exact L|]. apply auto_finds; try assumption.
      intro Q. rewrite Q in Hcnt. simpl in Hcnt. lia.
    - rewrite Hlen, (from_to_le 2048 r2048). reflexivity.
  Qed.

  (* ---- F10: what the current gate lets through and the conformant gate does not ---- *)
  Theorem gate_band_words ty lang b ws :
    gate_conformant (be_to_int b) = false ->
    encode gate_current ty lang b = Ok ws ->
    ((length ws = 13 \/ length ws = 25)%nat /\ forall dty dlang, decode dty dlang ws = Err ValueError \/
                                                   decode dty dlang ws = Err TypeError).
  Proof using All.
    intros C E. apply encode_ok in E. destruct E as (wl & p & L & T & G & M & V).
    pose proof (nth_error_In _ _ L) as Iwl. destruct (enc_langs_ok wl Iwl) as [Hnd Hlen].
    destruct (words_of_idx wl _ ws Hnd M) as (Mi & Lw & Hin).
    pose proof (proj1 (gate_diff word_bit_len ent_bit_lens wbl_eq ent_eq _) (conj G C)) as Band.
    pose proof (digits_13_25 _ Band) as Hcnt. rewrite <- Lw in Hcnt. split; [exact Hcnt|].
    intros dty dlang. unfold ElectrumV2Mnemonic.decode.
    destruct dty as [dt|]; [destruct (nth_error type_prefixes dt) as [pp|]; simpl; [|right; reflexivity]|simpl];
      (destruct dlang as [dl|]; [destruct (nth_error enc_langs dl) as [ll|]; simpl; [|right; reflexivity]|simpl]);
      (destruct (memb (N.of_nat (length ws)) word_nums) eqn:Mn; [apply nums_ok in Mn; lia|left; reflexivity]).
  Qed.

  (* ---- canonicity: an accepted phrase whose last word is not the first word of the list re-encodes to
          itself; one whose last word is the first word of the list cannot be re-encoded at all ---- *)

  Theorem accepted_partial ty lang ws b wl :
    nth_error enc_langs lang = Some wl ->
    decode (Some ty) (Some lang) ws = Ok b ->
    word_idx wl (last ws []) <> Ok 0 ->
    forall gate, gate = gate_conformant \/ gate = gate_current ->
    encode gate ty lang b = Ok ws.
  Proof using All.
    intros L D Htop gate Hg. apply decode_ok_iff in D.
    destruct D as ([p T] & Hcnt & V & wl' & idx & L' & Mi & ->).
    rewrite L in L'. inversion L' as [Ewl]. rewrite <- Ewl in *. clear L' Ewl.
    pose proof (nth_error_In _ _ L) as Iwl. destruct (enc_langs_ok wl Iwl) as [Hnd Hlen].
    destruct (idx_of_words wl ws idx Mi) as (Dg & Ma & Li & Hin). rewrite Hlen in *.
    (* the digit list is canonical: its last digit is the index of the last word *)
    assert (Hne : idx <> []) by (intro Q; rewrite Q in Li; simpl in Li; lia).
    destruct (exists_last Hne) as (q & x & Eq).
    assert (Hx : x <> 0).
    { intro Q. apply Htop. rewrite Eq in Mi.
      assert (Hws : ws <> []) by (intro Q'; rewrite Q' in Li; rewrite Eq, app_length in Li; simpl in Li; lia).
      destruct (exists_last Hws) as (ws0 & w & Ews). rewrite Ews in Mi |- *. rewrite last_last.
      rewrite mapM_app_local in Mi.
      destruct (mapM (word_idx wl) ws0) as [i0|] eqn:M0; simpl in Mi; [|discriminate].
      destruct (word_idx wl w) as [iw|] eqn:Iw; simpl in Mi; [|discriminate].
      inversion Mi as [Em]. apply app_inj_tail in Em. destruct Em as [_ Ex]. rewrite Ex, Q. reflexivity. }
    assert (Hc : canon_le 2048 idx).
    { rewrite Eq in Dg |- *. apply digits_ok_app in Dg. destruct Dg as [Dq Dx].
      apply (canon_le_snoc 2048); [assumption|exact (Forall_inv Dx)|assumption]. }
    pose proof (to_from_le 2048 r2048 idx Hc) as TF.
    pose proof (from_le_lt 2048 r2048 idx Dg) as Up.
    pose proof (from_le_ge 2048 r2048 idx Hc Hne) as Lo.
    assert (Gc : gate_conformant (from_le 2048 idx) = true).
    { apply (gate_conformant_iff word_bit_len ent_bit_lens wbl_eq ent_eq). rewrite Li in Up, Lo.
      destruct Hcnt as [Q|Q]; rewrite Q in Up, Lo; simpl in Lo.
      - left. rewrite p2048_12 in Up. change (12 - 1)%nat with 11%nat in Lo. rewrite p2048_11 in Lo. lia.
      - right. rewrite p2048_24 in Up. change (24 - 1)%nat with 23%nat in Lo. rewrite p2048_23 in Lo. lia. }
    apply (encode_intro gate ty lang _ wl p ws L T); rewrite ?be_to_int_auto.
    - destruct Hg as [->| ->]; [exact Gc|].
      exact (gate_conformant_current word_bit_len ent_bit_lens wbl_eq ent_eq _ Gc).
    - rewrite TF. exact Ma.
    - exact V.
  Qed.

  Lemma canon_le_no_top_zero r p : ~ canon_le r (p ++ [0]).
  Proof.
    induction p as [|d p IH]; simpl.
    - intros [_ H]. congruence.
    - intros [_ H]. destruct (p ++ [0]) as [|e t] eqn:E; [destruct p; discriminate|]. exact (IH H).
  Qed.

  Theorem top_zero_not_canonical dty lang ws b wl :
    nth_error enc_langs lang = Some wl ->
    decode dty (Some lang) ws = Ok b ->
    word_idx wl (last ws []) = Ok 0 ->
    forall gate ty, encode gate ty lang b <> Ok ws.
  Proof using All.
    intros L D Htop gate ty E. apply decode_ok_iff in D.
    destruct D as (_ & Hcnt & V & wl' & idx & L' & Mi & ->).
    rewrite L in L'. inversion L' as [Ewl]. rewrite <- Ewl in *. clear L' Ewl.
    pose proof (nth_error_In _ _ L) as Iwl. destruct (enc_langs_ok wl Iwl) as [Hnd Hlen].
    assert (Hws : ws <> []) by (intro Q'; rewrite Q' in Hcnt; simpl in Hcnt; lia).
    destruct (exists_last Hws) as (ws0 & w & Ews).
    assert (Mi' : exists i0, idx = i0 ++ [0]).
    { rewrite Ews in Mi, Htop. rewrite last_last in Htop. rewrite mapM_app_local in Mi.
      destruct (mapM (word_idx wl) ws0) as [i0|] eqn:M0; simpl in Mi; [|discriminate].
      rewrite Htop in Mi. simpl in Mi. inversion Mi as [Ei]. eauto. }
    destruct Mi' as [i0 Ei].
    apply encode_ok in E. destruct E as (wl2 & _ & L2 & _ & _ & M & _).
    rewrite L in L2. inversion L2 as [Ewl]. rewrite <- Ewl in *.
    destruct (words_of_idx wl _ ws Hnd M) as (Mi2 & _ & _). rewrite Mi in Mi2. inversion Mi2 as [Ed].
    pose proof (to_le_canon 2048 r2048 (be_to_int (int_to_be_auto (from_le (wl_len wl) idx)))) as C.
    rewrite <- Ed, Ei in C. exact (canon_le_no_top_zero 2048 i0 C).
  Qed.

  (* ---- acceptance ---- *)
  Theorem accepts_iff ty lang ws :
    (exists b, decode ty lang ws = Ok b) <->
    (match ty with Some t => exists p, nth_error type_prefixes t = Some p | None => True end /\
     (length ws = 12 \/ length ws = 24)%nat /\ is_valid ws ty = Ok true /\
     exists wl, match lang with
                | Some l => nth_error enc_langs l = Some wl
                | None => find_language (fun wl => wl) b39_langs ws = Ok wl
                end /\ Forall (fun w => In w wl) ws).
  Proof using All.
    split.
    - intros [b D]. apply decode_ok_iff in D. destruct D as (Ht & Hc & V & wl & idx & Hl & Mi & _).
      split; [assumption|]. split; [assumption|]. split; [assumption|]. exists wl. split; [assumption|].
      apply (idx_of_words wl ws idx Mi).
    - intros (Ht & Hc & V & wl & Hl & Hin).
      assert (Mi : exists idx, mapM (word_idx wl) ws = Ok idx).
      { clear -Hin. induction Hin as [|w ws Hw _ [idx E]]; [exists []; reflexivity|].
        apply word_idx_ok_iff in Hw. destruct Hw as [i Hi]. exists (i :: idx). simpl. rewrite Hi, E. reflexivity. }
      destruct Mi as [idx Mi]. exists (int_to_be_auto (from_le (wl_len wl) idx)).
      apply decode_ok_iff. repeat (split; [assumption|]). exists wl, idx. auto.
  Qed.

  (* ---- the generator's retry loop returns the first attempt that Encode accepts ---- *)
  Theorem attempts_spec gate ty lang e : forall fuel i ws,
    attempts gate fuel ty lang e i = Ok ws ->
    exists k, i + k < max_attempts /\
      encode gate ty lang (int_to_be_auto (e + (i + k))) = Ok ws /\
      forall j, j < k -> encode gate ty lang (int_to_be_auto (e + (i + j))) = Err ValueError \/
                         encode gate ty lang (int_to_be_auto (e + (i + j))) = Err UnicodeError.
  Proof using All.
    induction fuel as [|f IH]; intros i ws H; [discriminate|]. cbn [ElectrumV2Mnemonic.attempts] in H.
    destruct (N.ltb_spec i max_attempts) as [Lt|]; [|discriminate].
    destruct (encode gate ty lang (int_to_be_auto (e + i))) as [ws'|x] eqn:E.
    - inversion H as [Hw]. exists 0. rewrite N.add_0_r. split; [assumption|]. split; [rewrite <- Hw; exact E|].
      intros j Hj. lia.
    - assert (Hx : x = ValueError \/ x = UnicodeError) by (destruct x; try discriminate; auto).
      assert (H' : attempts gate f ty lang e (i + 1) = Ok ws) by (destruct Hx as [->| ->]; exact H).
      destruct (IH _ _ H') as (k & Lk & Ek & Fk). exists (k + 1).
      replace (i + (k + 1)) with (i + 1 + k) by lia. split; [assumption|]. split; [assumption|].
      intros j Hj. destruct (N.eq_dec j 0) as [->|Hn].
      + rewrite N.add_0_r, E. destruct Hx as [->| ->]; auto.
      + replace (i + j) with (i + 1 + (j - 1)) by lia. apply Fk. lia.
  Qed.
End Ev2Proofs.

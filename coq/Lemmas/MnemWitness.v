(* Concrete witnesses (by computation on the generated word lists) for the statements of C17 that are
   false of the code as it stands, and the exact description of the chunk overflow class. *)
From Coq Require Import NArith Arith List Lia Bool.
From BU Require Import Base.Exn Base.Bytes Model.MnemWords Model.MnemText Model.ChunkMnemonic
  Model.MoneroMnemonic Lemmas.MnemWords Lemmas.ChunkMnemonic.
From BU Require Import Gen.MnemConsts Gen.MnemLangs Gen.WlMnem_Ev1 Gen.WlMnem_Xmr_english.
Import ListNotations.
Open Scope N_scope.

(* ---- F8: which index triples pack to 2^32 or more (n = 1626) ---- *)
Lemma packed_overflow_iff w1 w2 w3 :
  w1 < xmr_words_num -> w2 < xmr_words_num -> w3 < xmr_words_num ->
  let d1 := sub_mod xmr_words_num w2 w1 in
  let d2 := sub_mod xmr_words_num w3 w2 in
  (chunk_limit <= packed xmr_words_num w1 w2 w3 <->
   d2 = 1625 \/ (d2 = 1624 /\ (808 <= d1 \/ (d1 = 807 /\ 490 <= w1)))).
Proof.
  intros H1 H2 H3 d1 d2. unfold packed.
  rewrite (N.mod_small w2 _ H2), (N.mod_small w3 _ H3). fold d1 d2.
  assert (Hd1 : d1 < xmr_words_num) by (apply sub_mod_lt; reflexivity).
  assert (Hd2 : d2 < xmr_words_num) by (apply sub_mod_lt; reflexivity).
  change xmr_words_num with 1626 in *. change chunk_limit with 4294967296. lia.
Qed.

(* the same class for the Electrum v1 list *)
Lemma ev1_same_n : ev1_words_num = xmr_words_num.
Proof. reflexivity. Qed.

(* word indices (0, 0, 1625) of the Monero English list: five bytes come back *)
Lemma chunk_refuted_witness :
  let a := nth 0 wl_xmr_english [] in
  let c := nth 1625 wl_xmr_english [] in
  In a wl_xmr_english /\ In c wl_xmr_english /\
  words_to_chunk_current wl_xmr_english Little a a c = Ok [4; 80; 20; 0; 1] /\
  words_to_chunk wl_xmr_english Little a a c = Err ValueError.
Proof.
  cbv zeta. split; [apply nth_In; vm_compute; lia|]. split; [apply nth_In; vm_compute; lia|].
  split; vm_compute; reflexivity.
Qed.

Definition xmr_dec_current := MoneroMnemonic.decode xmr_langs xmr_word_nums xmr_word_nums_chk words_to_chunk_current.
Definition xmr_dec := MoneroMnemonic.decode xmr_langs xmr_word_nums xmr_word_nums_chk words_to_chunk.
Definition xmr_enc := MoneroMnemonic.encode xmr_langs xmr_entropy_bit_lens.

(* a 12-word English Monero phrase that the code as it stands decodes to 17 bytes *)
Lemma monero_17_bytes_witness :
  exists ws b, length ws = 12%nat /\ Forall (fun w => In w wl_xmr_english) ws /\
    xmr_dec_current (Some 2%nat) ws = Ok b /\ length b = 17%nat /\
    xmr_dec (Some 2%nat) ws = Err ValueError.
Proof.
  exists ([nth 0 wl_xmr_english []; nth 0 wl_xmr_english []; nth 1625 wl_xmr_english []]
          ++ repeat (nth 0 wl_xmr_english []) 9).
  eexists. split; [reflexivity|]. split.
  - apply all_in_Forall. vm_compute. reflexivity.
  - split; [vm_compute; reflexivity|]. split; vm_compute; reflexivity.
Qed.

(* automatic language detection: the French (position 3) encoding of 1f000000 x 4 consists of a word that
   is also Dutch (position 1), so it is decoded with the Dutch indices -- to another entropy *)
Lemma monero_auto_witness :
  let b := concat (repeat [31; 0; 0; 0] 4) in
  exists ws b', xmr_enc 3%nat false b = Ok ws /\ xmr_dec (Some 3%nat) ws = Ok b /\
                xmr_dec None ws = Ok b' /\ xmr_dec_current None ws = Ok b' /\ b' <> b.
Proof.
  cbv zeta. eexists. eexists. split; [vm_compute; reflexivity|].
  split; [vm_compute; reflexivity|]. split; [vm_compute; reflexivity|]. split; [vm_compute; reflexivity|].
  vm_compute. discriminate.
Qed.

(* ---- Electrum v1: 12 words decoding to 17 bytes under the code as it stands ---- *)
From BU Require Import Model.ElectrumV1Mnemonic.
Definition ev1_dec_current := ElectrumV1Mnemonic.decode wl_ev1 ev1_word_nums words_to_chunk_current.
Definition ev1_dec := ElectrumV1Mnemonic.decode wl_ev1 ev1_word_nums words_to_chunk.

Lemma ev1_17_bytes_witness :
  exists ws b, length ws = 12%nat /\ Forall (fun w => In w wl_ev1) ws /\
    ev1_dec_current ws = Ok b /\ length b = 17%nat /\ ev1_dec ws = Err ValueError.
Proof.
  exists ([nth 0 wl_ev1 []; nth 0 wl_ev1 []; nth 1625 wl_ev1 []] ++ repeat (nth 0 wl_ev1 []) 9).
  eexists. split; [reflexivity|]. split.
  - apply all_in_Forall. vm_compute. reflexivity.
  - split; [vm_compute; reflexivity|]. split; vm_compute; reflexivity.
Qed.

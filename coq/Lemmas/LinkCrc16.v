(* LINK: the Stellar address pipeline (Model/AddrText.v [xlm_encode]/[xlm_decode], C09 [xlm_dec_enc]) carried
   "crc16 returns 2 bytes" as a hypothesis about an abstract function, although CRC-16/XMODEM is pure arithmetic
   (DESIGN.md section 3 lists it as modelled concretely; it was not).  Model/LinkCrc16.v models it; here the two laws are
   proved for every input and the round trip is restated with no checksum hypothesis. *)
From Coq Require Import NArith Arith List Lia Bool.
From BU Require Import Base.Exn Base.Bytes Gen.AddrConsts Gen.AddrTextConsts Model.AddrText Model.LinkCrc16.
From BU Require Lemmas.Bech32Poly Lemmas.AddrInst.
Import ListNotations.
Open Scope N_scope.

Lemma land_mask_lt x : N.land x crc16_mask < 65536.
Proof. change crc16_mask with (N.ones 16). rewrite N.land_ones. apply N.mod_lt. discriminate. Qed.

Lemma crc16_bits_lt k : forall c, (1 <= k)%nat -> crc16_bits k c < 65536.
Proof.
  induction k as [|k IH]; intros c Hk; [lia|]. cbn [crc16_bits].
  set (c' := if N.testbit c 15 then _ else _).
  assert (Hc' : c' < 65536).
  { unfold c'. destruct (N.testbit c 15); [|apply land_mask_lt].
    apply (Lemmas.Bech32Poly.lxor_lt _ _ 16); [apply land_mask_lt|reflexivity]. }
  destruct k as [|k']; [exact Hc'|]. apply IH. lia.
Qed.

Lemma crc16_lt bs : crc16 bs < 65536.
Proof.
  unfold crc16. assert (H : forall acc, acc < 65536 -> fold_left crc16_byte bs acc < 65536).
  { induction bs as [|b t IH]; intros acc Ha; [exact Ha|]. cbn [fold_left]. apply IH. apply crc16_bits_lt. lia. }
  apply H. reflexivity.
Qed.

Theorem crc16_xmodem_len x : length (crc16_xmodem x) = 2%nat.
Proof. reflexivity. Qed.

Theorem crc16_xmodem_ok x : bytes_ok (crc16_xmodem x).
Proof.
  pose proof (crc16_lt x) as H. unfold crc16_xmodem. constructor.
  - apply N.div_lt_upper_bound; [discriminate|exact H].
  - constructor; [apply N.mod_lt; discriminate|constructor].
Qed.

(* the catalogue check value: CRC-16/XMODEM("123456789") = 0x31C3 *)
Example crc16_check_value : crc16_xmodem [49; 50; 51; 52; 53; 54; 55; 56; 57] = [0x31; 0xC3].
Proof. vm_compute. reflexivity. Qed.

(* the digest determines the 16-bit value and conversely *)
Lemma crc16_xmodem_value x : be_to_int (crc16_xmodem x) = crc16 x.
Proof.
  unfold crc16_xmodem. change (be_to_int [crc16 x / 256; crc16 x mod 256]) with (crc16 x mod 256 + 256 * (crc16 x / 256 + 256 * 0)).
  pose proof (N.div_mod (crc16 x) 256 ltac:(discriminate)). lia.
Qed.

(* Stellar addresses with nothing abstract but the ed25519 key test *)
Theorem xlm_rt_c valid_pub t pub s : t < 256 -> bytes_ok pub -> length pub = (ed25519_compr_len - 1)%nat ->
  valid_pub 2 pub = true ->
  xlm_encode crc16_xmodem AddrCodecs.b32_enc_nopad t pub = Ok s ->
  xlm_decode valid_pub crc16_xmodem AddrCodecs.b32_dec t s = Ok pub.
Proof. exact (Lemmas.AddrInst.xlm_rt crc16_xmodem valid_pub crc16_xmodem_len crc16_xmodem_ok t pub s). Qed.

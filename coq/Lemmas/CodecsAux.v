(* General lemmas shared by the C11 codec proofs (radix digits, lists). *)
From Coq Require Import NArith Arith List Lia Bool.
From BU Require Import Base.Exn Base.Radix Base.Bytes.
Import ListNotations.
Open Scope N_scope.

Lemma map_repeat_N (f : N -> N) x k : map f (repeat x k) = repeat (f x) k.
Proof. induction k; simpl; congruence. Qed.

(* fixed-length digit strings are determined by their value *)
Lemma from_le_inj_len r : 2 <= r -> forall a b, digits_ok r a -> digits_ok r b -> length a = length b ->
  from_le r a = from_le r b -> a = b.
Proof.
  intros Hr. induction a as [|x a IH]; intros [|y b] Ha Hb Hl E; try discriminate; [reflexivity|].
  inversion Ha; subst. inversion Hb; subst. cbn [from_le] in E.
  destruct (N.div_mod_unique r (from_le r a) (from_le r b) x y) as [E1 E2]; [assumption|assumption|lia|].
  subst y. f_equal. apply IH; auto.
Qed.


Lemma from_be_inj_len r : 2 <= r -> forall a b, digits_ok r a -> digits_ok r b -> length a = length b ->
  from_be r a = from_be r b -> a = b.
Proof.
  intros Hr a b Ha Hb Hl E. rewrite <- (rev_involutive a), <- (rev_involutive b). f_equal.
  apply (from_le_inj_len r Hr); auto using digits_ok_rev. rewrite !rev_length. exact Hl.
Qed.

Lemma from_be_cons r x t : from_be r (x :: t) = x * r ^ N.of_nat (length t) + from_be r t.
Proof.
  unfold from_be. cbn [rev]. induction (rev t) as [|y u IH] eqn:E.
  - assert (t = []) by (destruct t; [reflexivity|]; apply (f_equal (@length N)) in E; rewrite rev_length in E; discriminate).
    subst. simpl. lia.
  - clear IH. rewrite <- (rev_length t), E. generalize (y :: u). clear.
    induction l as [|a l IH]; cbn [app from_le length].
    + simpl. lia.
    + rewrite IH, Nnat.Nat2N.inj_succ, N.pow_succ_r'. lia.
Qed.

Lemma from_be_app r a b : from_be r (a ++ b) = from_be r a * r ^ N.of_nat (length b) + from_be r b.
Proof.
  induction a as [|x a IH]; [unfold from_be at 2; simpl; lia|].
  rewrite <- app_comm_cons, !from_be_cons, IH, app_length, Nnat.Nat2N.inj_add, N.pow_add_r. lia.
Qed.

Lemma from_be_lt r ds : 2 <= r -> digits_ok r ds -> from_be r ds < r ^ N.of_nat (length ds).
Proof. intros Hr H. unfold from_be. rewrite <- (rev_length ds). apply (from_le_lt r Hr), digits_ok_rev, H. Qed.

Lemma pow2_pos k : 0 < 2 ^ k.
Proof. apply N.neq_0_lt_0, N.pow_nonzero. discriminate. Qed.

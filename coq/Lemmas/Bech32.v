(* Proofs about Model/Bech32.v: the string layer (_EncodeBech32 / _DecodeBech32) generically, then
   Bech32, SegWit and CashAddr: acceptance specifications, error classes, round trips, canonicity. *)
From Coq Require Import NArith Arith List Lia Bool.
From BU Require Import Base.Exn Base.Radix Base.Bytes Gen.Bech32Consts
  Model.Bech32Bits Model.Bech32Str Model.Bech32
  Lemmas.Base58 Lemmas.Bech32Bits Lemmas.Bech32Str Lemmas.Bech32Poly Lemmas.Bech32ConstsOk Lemmas.Bech32Code.
Import ListNotations.
Open Scope N_scope.

Lemma existsb_false_forall {A} (f : A -> bool) l : existsb f l = false <-> Forall (fun x => f x = false) l.
Proof.
  induction l as [|x l IH]; simpl; [split; auto|]. rewrite orb_false_iff, IH. split.
  - intros [H1 H2]. constructor; auto.
  - intros H. inversion H; auto.
Qed.

Lemma forallb_Forall {A} (f : A -> bool) l : forallb f l = true <-> Forall (fun x => f x = true) l.
Proof. rewrite forallb_forall, Forall_forall. reflexivity. Qed.

Lemma drop_last_length k l : length (drop_last k l) = (length l - k)%nat.
Proof. unfold drop_last. rewrite firstn_length. lia. Qed.

Lemma take_last_length k l : (k <= length l)%nat -> length (take_last k l) = k.
Proof. unfold take_last. rewrite skipn_length. lia. Qed.

Section BaseSpec.
  Variable charset : list N.
  Variables hmin hmax sep : N.
  Variable cklen : nat.
  Variable ascii_only : bool.
  Variable min_data : nat.
  Variable verify : list N -> list N -> res bool.
  Hypothesis charset_nodup : NoDup charset.
  Hypothesis sep_out : ~ In sep charset.

  Notation nsym := (N.of_nat (length charset)).
  Definition sym (d : N) : N := nth (N.to_nat d) charset 0.
  Notation decode_base := (decode_base charset hmin hmax sep cklen ascii_only min_data verify).

  Definition hrp_ok (hrp : list N) : Prop := hrp <> [] /\ Forall (fun x => hmin <= x <= hmax) hrp.
  Definition syms_ok (l : list N) : Prop := Forall (fun d => d < nsym) l.

  Lemma sym_nth d : d < nsym -> nth_error charset (N.to_nat d) = Some (sym d).
  Proof. intros H. unfold sym. apply nth_error_nth'. lia. Qed.

  Lemma sym_in d : d < nsym -> In (sym d) charset.
  Proof. intros H. eapply nth_error_In, sym_nth; eauto. Qed.

  Lemma char_at_ok d : d < nsym -> char_at charset d = Ok (sym d).
  Proof.
    intros H. unfold char_at. destruct (N.ltb_spec d nsym); [|lia]. rewrite sym_nth by assumption. reflexivity.
  Qed.

  Lemma char_at_err d e : char_at charset d = Err e -> e = IndexError /\ nsym <= d.
  Proof.
    unfold char_at. destruct (N.ltb_spec d nsym) as [H|H].
    - rewrite sym_nth by assumption. discriminate.
    - intros X; inversion X; auto.
  Qed.

  Lemma mapM_char_at l : syms_ok l -> mapM (char_at charset) l = Ok (map sym l).
  Proof.
    intros H. apply mapM_ok_forall. intros x Hx. apply char_at_ok. unfold syms_ok in H. rewrite Forall_forall in H. auto.
  Qed.

  Lemma find_sym d : d < nsym -> charset_find charset (sym d) = d.
  Proof.
    intros H. unfold charset_find. rewrite (index_of_nodup charset charset_nodup _ _ (sym_nth d H)).
    apply Nnat.N2Nat.id.
  Qed.

  Lemma find_spec x : In x charset -> charset_find charset x < nsym /\ sym (charset_find charset x) = x.
  Proof.
    intros H. unfold charset_find. destruct (index_of x charset) as [i|] eqn:E.
    - pose proof (index_of_lt _ _ _ E). split; [lia|]. unfold sym. rewrite Nnat.Nat2N.id.
      apply nth_error_nth. apply index_of_nth. assumption.
    - apply index_of_none in E. contradiction.
  Qed.

  Lemma sym_inj a b : a < nsym -> b < nsym -> sym a = sym b -> a = b.
  Proof. intros Ha Hb E. rewrite <- (find_sym a Ha), <- (find_sym b Hb), E. reflexivity. Qed.

  Lemma map_find_sym l : syms_ok l -> map (charset_find charset) (map sym l) = l.
  Proof.
    induction 1 as [|d l Hd Hl IH]; [reflexivity|]. cbn [map]. rewrite find_sym, IH by assumption. reflexivity.
  Qed.

  Lemma map_sym_find l : Forall (fun x => In x charset) l ->
    syms_ok (map (charset_find charset) l) /\ map sym (map (charset_find charset) l) = l.
  Proof.
    induction 1 as [|x l Hx Hl [IH1 IH2]]; [split; [constructor|reflexivity]|].
    destruct (find_spec x Hx) as [F1 F2]. cbn [map]. split; [constructor; assumption|congruence].
  Qed.

  Lemma map_sym_inj a : forall b, syms_ok a -> syms_ok b -> map sym a = map sym b -> a = b.
  Proof.
    intros b Ha Hb E. rewrite <- (map_find_sym a Ha), <- (map_find_sym b Hb), E. reflexivity.
  Qed.

  Lemma sep_not_in_syms l : syms_ok l -> ~ In sep (map sym l).
  Proof.
    intros H I. apply in_map_iff in I. destruct I as (d & E & Hd). unfold syms_ok in H. rewrite Forall_forall in H.
    apply sep_out. rewrite <- E. apply sym_in. auto.
  Qed.

  Hypothesis cklen_pos : (1 <= cklen)%nat.

  Lemma strip_checksum_eq l : strip_checksum cklen l = drop_last cklen l.
  Proof. unfold strip_checksum. destruct cklen; [lia|reflexivity]. Qed.

  Definition ascii_rule (s : list N) : Prop := ascii_only = true -> Forall (fun c => c < 128) s.

  Lemma ascii_guard_false s : ascii_only && negb (forallb (fun c => c <? 128) s) = false <-> ascii_rule s.
  Proof.
    unfold ascii_rule. destruct ascii_only; cbn [andb].
    - rewrite negb_false_iff, forallb_Forall. split.
      + intros H _. eapply Forall_impl; [|exact H]. intros a Ha. apply N.ltb_lt. exact Ha.
      + intros H. specialize (H eq_refl). eapply Forall_impl; [|exact H]. intros a Ha. apply N.ltb_lt. exact Ha.
    - split; [discriminate|reflexivity].
  Qed.

  (* _DecodeBech32 accepts exactly: (ASCII only, where the code has that guard;) no mixed case; the lower-cased
     string is HRP, separator, symbols; HRP non-empty and in range; at least cklen + min_data symbols of the
     charset; checksum verifies *)
  Theorem decode_base_ok_iff s hrp data :
    decode_base s = Ok (hrp, data) <->
    ascii_rule s /\ is_string_mixed s = false /\ hrp_ok hrp /\
    exists ints, py_lower s = hrp ++ sep :: map sym ints /\ syms_ok ints /\ (cklen + min_data <= length ints)%nat /\
                 verify hrp ints = Ok true /\ data = drop_last cklen ints.
  Proof.
    unfold Bech32.decode_base. split.
    - destruct (ascii_only && negb (forallb (fun c => c <? 128) s)) eqn:CA; [discriminate|].
      apply ascii_guard_false in CA.
      destruct (is_string_mixed s); [discriminate|].
      destruct (rfind sep (py_lower s)) as [pos|] eqn:R; [|discriminate].
      apply rfind_some in R. destruct R as (a & b & El & Hb & <-). rewrite El, firstn_app_exact, skipn_app_exact.
      destruct ((length a =? 0)%nat || existsb (fun x => (x <? hmin) || (hmax <? x)) a) eqn:C1; [discriminate|].
      destruct ((length b <? cklen + min_data)%nat || negb (forallb (fun x => memb x charset) b)) eqn:C2; [discriminate|].
      destruct (verify a (map (charset_find charset) b)) as [[|]|e] eqn:V; cbn [bind Ok negb]; try discriminate.
      intros X. injection X as E1 E2. subst hrp data.
      apply orb_false_iff in C1. destruct C1 as [C1a C1b]. apply orb_false_iff in C2. destruct C2 as [C2a C2b].
      apply Nat.eqb_neq in C1a. apply Nat.ltb_ge in C2a. apply negb_false_iff, forallb_Forall in C2b.
      apply existsb_false_forall in C1b.
      assert (Hin : Forall (fun x => In x charset) b).
      { eapply Forall_impl; [|exact C2b]. intros x Hx. apply memb_In. assumption. }
      destruct (map_sym_find b Hin) as [S1 S2].
      split; [exact CA|]. split; [reflexivity|]. split.
      + split; [destruct a; [simpl in C1a; lia|discriminate]|].
        eapply Forall_impl; [|exact C1b]. intros x Hx. cbv beta in Hx. apply orb_false_iff in Hx. destruct Hx as [H1 H2].
        apply N.ltb_ge in H1, H2. split; assumption.
      + exists (map (charset_find charset) b). rewrite S2, map_length. repeat split; auto. apply strip_checksum_eq.
    - intros (CA & M & [Hne Hr] & ints & El & Hs & Hlen & V & ->). apply ascii_guard_false in CA. rewrite CA, M, El.
      rewrite rfind_app by (apply sep_not_in_syms; assumption). rewrite firstn_app_exact, skipn_app_exact.
      assert (C1 : (length hrp =? 0)%nat || existsb (fun x => (x <? hmin) || (hmax <? x)) hrp = false).
      { apply orb_false_iff. split; [apply Nat.eqb_neq; destruct hrp; [congruence|simpl; lia]|].
        apply existsb_false_forall. eapply Forall_impl; [|exact Hr]. intros x [H1 H2]. cbv beta.
        apply orb_false_iff. split; apply N.ltb_ge; assumption. }
      rewrite C1.
      assert (C2 : (length (map sym ints) <? cklen + min_data)%nat || negb (forallb (fun x => memb x charset) (map sym ints)) = false).
      { apply orb_false_iff. split; [apply Nat.ltb_ge; rewrite map_length; assumption|].
        apply negb_false_iff, forallb_forall. intros x Hx. apply memb_In. apply in_map_iff in Hx.
        destruct Hx as (d & <- & Hd). apply sym_in. unfold syms_ok in Hs. rewrite Forall_forall in Hs. auto. }
      rewrite C2, map_find_sym, V by assumption. cbn [bind Ok negb]. rewrite strip_checksum_eq. reflexivity.
  Qed.

  (* the only failures are ValueError and Bech32ChecksumError, provided the subclass' verifier does not fail
     on the non-empty symbol lists it is given *)
  Theorem decode_base_err s e :
    (forall h d, d <> [] -> exists b, verify h d = Ok b) ->
    decode_base s = Err e -> e = ValueError \/ e = LibError Bech32ChecksumError.
  Proof.
    intros Hv. unfold Bech32.decode_base.
    destruct (ascii_only && _); [intros X; inversion X; auto|].
    destruct (is_string_mixed s); [intros X; inversion X; auto|].
    destruct (rfind sep (py_lower s)) as [pos|]; [|intros X; inversion X; auto].
    destruct (_ || _); [intros X; inversion X; auto|].
    destruct ((length (skipn (S pos) (py_lower s)) <? cklen + min_data)%nat || _) eqn:C2; [intros X; inversion X; auto|].
    apply orb_false_iff in C2. destruct C2 as [C2 _]. apply Nat.ltb_ge in C2.
    destruct (Hv (firstn pos (py_lower s)) (map (charset_find charset) (skipn (S pos) (py_lower s)))) as [b Eb].
    { intro Z. apply (f_equal (@length N)) in Z. rewrite map_length in Z. cbn [length] in Z. lia. }
    rewrite Eb. cbn [bind Ok]. destruct b; cbn [negb]; [discriminate|]. intros X; inversion X; auto.
  Qed.

  (* two accepted readings of one string agree: the HRP and data are functions of the string *)
  Lemma decode_base_chars s hrp data : decode_base s = Ok (hrp, data) ->
    Forall (fun x => (hmin <= x <= hmax) \/ x = sep \/ In x charset) (py_lower s).
  Proof.
    intros H. apply decode_base_ok_iff in H. destruct H as (_ & _ & [_ Hr] & ints & -> & Hs & _).
    apply Forall_app. split; [eapply Forall_impl; [|exact Hr]; auto|].
    constructor; [auto|]. apply Forall_forall. intros x Hx. apply in_map_iff in Hx. destruct Hx as (d & <- & Hd).
    right. right. apply sym_in. unfold syms_ok in Hs. rewrite Forall_forall in Hs. auto.
  Qed.
End BaseSpec.

(* ------------------------------------------------------------------ instances on the generated constants *)
Notation bsym := (sym bech32_charset).

Definition hrp_ok33 : list N -> Prop := hrp_ok bech32_hrp_min_cp bech32_hrp_max_cp.
(* the isascii() guard of _DecodeBech32, where the source has one (Gen: bech32_dec_ascii_only) *)
Definition dec_ascii_rule : list N -> Prop := ascii_rule bech32_dec_ascii_only.
(* what the encoders' HRP must look like for the output to be a well-formed string: non-empty, printable
   ASCII, no upper-case letter *)
Definition hrp_enc_ok (hrp : list N) : Prop :=
  hrp <> [] /\ Forall (fun x => bech32_hrp_min_cp <= x <= bech32_hrp_max_cp /\ ~ (65 <= x <= 90)) hrp.

Lemma hrp_enc_ok_33 hrp : hrp_enc_ok hrp -> hrp_ok33 hrp.
Proof. intros [H1 H2]. split; [assumption|]. eapply Forall_impl; [|exact H2]. intros a [Ha _]. exact Ha. Qed.

Lemma hrp_ok33_chars hrp : hrp_ok33 hrp -> hrp_chars_ok hrp.
Proof. intros [_ H]. exact H. Qed.

Lemma hrp_enc_stable hrp : hrp_enc_ok hrp -> Forall stable hrp.
Proof.
  intros [_ H]. eapply Forall_impl; [|exact H]. intros x [[_ H2] H3]. apply ascii_stable; [|assumption].
  destruct hrp_range as [_ E]. rewrite E in H2. lia.
Qed.

Lemma syms_ok_small l : syms_ok bech32_charset l <-> small32 l.
Proof. reflexivity. Qed.

Lemma bsym_stable l : small32 l -> Forall stable (map bsym l).
Proof.
  intros H. apply Forall_forall. intros x Hx. apply in_map_iff in Hx. destruct Hx as (d & <- & Hd).
  pose proof charset_stable as S. rewrite Forall_forall in S. apply S. apply sym_in.
  unfold small32 in H. rewrite Forall_forall in H. apply H. assumption.
Qed.

(* the encoders' output is a lower-case string: lower() leaves it alone and it is not mixed case *)
Lemma encoded_stable hrp sep l : hrp_enc_ok hrp -> In sep [bech32_sep; segwit_sep; cash_sep] -> small32 l ->
  Forall stable (hrp ++ sep :: map bsym l).
Proof.
  intros Hh Hs Hl. apply Forall_app. split; [apply hrp_enc_stable; assumption|].
  constructor; [apply sep_stable; assumption|apply bsym_stable; assumption].
Qed.

Lemma encoded_ascii hrp sep l : hrp_enc_ok hrp -> In sep [bech32_sep; segwit_sep; cash_sep] -> small32 l ->
  dec_ascii_rule (hrp ++ sep :: map bsym l).
Proof.
  intros [_ Hh] Hs Hl _. apply Forall_app. split.
  - eapply Forall_impl; [|exact Hh]. intros x [[_ H2] _]. destruct hrp_range as [_ E]. rewrite E in H2. lia.
  - constructor; [apply sep_stable; assumption|]. apply Forall_forall. intros x Hx. apply in_map_iff in Hx.
    destruct Hx as (d & <- & Hd). pose proof charset_ascii as A. rewrite Forall_forall in A. apply A. apply sym_in.
    unfold small32 in Hl. rewrite Forall_forall in Hl. apply Hl. assumption.
Qed.

Lemma drop_last_cons k (x : N) l : (k <= length l)%nat -> drop_last k (x :: l) = x :: drop_last k l.
Proof. intros H. unfold drop_last. simpl length. replace (S (length l) - k)%nat with (S (length l - k)) by lia. reflexivity. Qed.

Lemma split_last k (l : list N) : (k <= length l)%nat ->
  l = drop_last k l ++ take_last k l /\ length (take_last k l) = k.
Proof. intros H. split; [symmetry; apply drop_take_last|apply take_last_length; assumption]. Qed.

Lemma small32_app a b : small32 (a ++ b) <-> small32 a /\ small32 b.
Proof. apply Forall_app. Qed.

Lemma b32_to_base32_eq d : b32_to_base32 d = to_base32 8 5 d.
Proof. reflexivity. Qed.
Lemma b32_from_base32_eq d : b32_from_base32 d = from_base32 5 8 d.
Proof. reflexivity. Qed.

Lemma to_base32_nonempty d syms : to_base32 8 5 d = Ok syms -> d <> [] -> syms <> [].
Proof.
  intros H Hd ->. apply to_base32_length in H. destruct d as [|x d]; [congruence|]. cbn [length] in H.
  assert (1 <= (8 * S (length d) + 4) / 5)%nat by (apply Nat.div_le_lower_bound; lia). lia.
Qed.

(* ------------------------------------------------------------------ Bech32Decoder / Bech32Encoder *)
Definition bech32_verify_fn (hrp data : list N) : res bool := Ok (b32_verify_checksum bech32_const hrp data).

Lemma bech32_raw_ok_iff s hrp data :
  bech32_decode_raw s = Ok (hrp, data) <->
  dec_ascii_rule s /\ is_string_mixed s = false /\ hrp_ok33 hrp /\
  exists syms, py_lower s = hrp ++ bech32_sep :: map bsym syms /\ small32 syms /\
    (bech32_cklen + bech32_decoder_min_data <= length syms)%nat /\ b32_verify_checksum bech32_const hrp syms = true /\
    data = drop_last bech32_cklen syms.
Proof.
  unfold bech32_decode_raw, bech32_decode_base.
  rewrite (decode_base_ok_iff bech32_charset _ _ bech32_sep bech32_cklen _ _ _ charset_nodup
             (proj1 (proj2 (sep_stable bech32_sep (or_introl eq_refl)))) b32_cklen_pos).
  split; intros (CA & M & Hh & syms & El & Hs & Hl & V & Hd); (split; [exact CA|]); (split; [exact M|]); (split; [exact Hh|]);
    exists syms; repeat split; auto.
  - inversion V. reflexivity.
  - rewrite V. reflexivity.
Qed.

Theorem bech32_decode_ok_iff hrp s payload :
  bech32_decode hrp s = Ok payload <->
  dec_ascii_rule s /\ is_string_mixed s = false /\ hrp_ok33 hrp /\
  exists syms, py_lower s = hrp ++ bech32_sep :: map bsym syms /\ small32 syms /\
    (bech32_cklen + bech32_decoder_min_data <= length syms)%nat /\ b32_verify_checksum bech32_const hrp syms = true /\
    from_base32 5 8 (drop_last bech32_cklen syms) = Ok payload.
Proof.
  unfold bech32_decode. split.
  - destruct (bech32_decode_raw s) as [[h d]|] eqn:R; cbn [bind Ok fst snd]; [|discriminate].
    destruct (list_eqb hrp h) eqn:E; cbn [negb]; [|discriminate]. apply list_eqb_spec in E. subst h.
    intros F. apply bech32_raw_ok_iff in R. destruct R as (CA & M & Hh & syms & El & Hs & Hl & V & ->).
    split; [exact CA|]. split; [exact M|]. split; [exact Hh|]. exists syms. auto.
  - intros (CA & M & Hh & syms & El & Hs & Hl & V & F).
    assert (R : bech32_decode_raw s = Ok (hrp, drop_last bech32_cklen syms)).
    { apply bech32_raw_ok_iff. split; [exact CA|]. split; [exact M|]. split; [exact Hh|]. exists syms. auto. }
    rewrite R. cbn [bind Ok fst snd]. rewrite list_eqb_refl. cbn [negb]. exact F.
Qed.

Theorem bech32_decode_err hrp s e :
  bech32_decode hrp s = Err e -> e = ValueError \/ e = LibError Bech32ChecksumError.
Proof.
  unfold bech32_decode. destruct (bech32_decode_raw s) as [[h d]|e'] eqn:R; cbn [bind Ok fst snd].
  - destruct (list_eqb hrp h); cbn [negb]; [|intros X; inversion X; auto].
    intros F. left. eapply from_base32_err; eauto.
  - intros X; inversion X; subst. unfold bech32_decode_raw, bech32_decode_base in R.
    eapply decode_base_err; [apply b32_cklen_pos| |exact R]. intros h d _. eexists; reflexivity.
Qed.

(* canonicity: an accepted string is, up to case, the encoder's output for what it decodes to *)
Theorem bech32_dec_then_enc hrp s payload :
  bech32_decode hrp s = Ok payload -> bech32_encode hrp payload = Ok (py_lower s).
Proof.
  intros H. apply bech32_decode_ok_iff in H. destruct H as (_ & M & Hh & syms & El & Hs & Hl & V & F).
  destruct (split_last bech32_cklen syms ltac:(lia)) as [Sp Lc].
  set (d := drop_last bech32_cklen syms) in *. set (cs := take_last bech32_cklen syms) in *.
  rewrite Sp in Hs, V. apply small32_app in Hs. destruct Hs as [Hd Hc].
  apply to_from_base32 in F. destruct F as (Hp & _ & T).
  assert (C : cs = b32_compute_checksum bech32_const hrp d).
  { apply b32_checksum_unique; auto; [apply bech32_const_small|apply hrp_ok33_chars; assumption]. }
  unfold bech32_encode. rewrite b32_to_base32_eq, T. cbn [bind Ok].
  unfold bech32_encode_base, encode_base. cbn [bind Ok]. rewrite <- C.
  rewrite (mapM_char_at bech32_charset) by (apply Forall_app; split; assumption).
  cbn [bind Ok]. rewrite El, Sp. reflexivity.
Qed.

(* round trip; as long as the decoder wants cklen + 1 symbols (F11) the payload must be non-empty *)
Theorem bech32_dec_enc hrp data : hrp_enc_ok hrp -> bytes_ok data ->
  data <> [] \/ bech32_decoder_min_data = 0%nat ->
  exists s, bech32_encode hrp data = Ok s /\ bech32_decode hrp s = Ok data.
Proof.
  intros Hh Hd Hne. destruct (to_base32_total data Hd) as (syms & T & Hs).
  set (cs := b32_compute_checksum bech32_const hrp syms).
  assert (Hall : small32 (syms ++ cs)) by (apply Forall_app; split; [assumption|apply b32_compute_small]).
  exists (hrp ++ bech32_sep :: map bsym (syms ++ cs)). split.
  - unfold bech32_encode. rewrite b32_to_base32_eq, T. cbn [bind Ok]. unfold bech32_encode_base, encode_base. cbn [bind Ok].
    fold cs. rewrite (mapM_char_at bech32_charset) by assumption. reflexivity.
  - pose proof (encoded_stable hrp bech32_sep (syms ++ cs) Hh (or_introl eq_refl) Hall) as St.
    apply bech32_decode_ok_iff. split; [apply encoded_ascii; auto; left; reflexivity|].
    split; [apply not_mixed_stable; assumption|].
    split; [apply hrp_enc_ok_33; assumption|]. exists (syms ++ cs).
    assert (Lc : length cs = bech32_cklen) by apply b32_compute_length.
    split; [apply py_lower_stable; assumption|]. split; [assumption|]. split.
    + rewrite app_length, Lc. destruct Hne as [Hne|Hz]; [|rewrite Hz; lia].
      pose proof (to_base32_nonempty _ _ T Hne). pose proof (proj2 (proj2 dec_min_data)).
      destruct syms; [congruence|cbn [length]; lia].
    + split; [apply b32_verify_compute; [apply bech32_const_small|apply hrp_ok33_chars, hrp_enc_ok_33; assumption|assumption]|].
      rewrite <- Lc, drop_last_app. apply from_to_base32; assumption.
Qed.

(* ------------------------------------------------------------------ SegWit *)
Definition segwit_const (v : N) : N := if v =? segwit_ver_bech32 then bech32_const else bech32m_const.

Lemma segwit_const_small v : segwit_const v < 2 ^ W32.
Proof. unfold segwit_const. destruct (v =? segwit_ver_bech32); [apply bech32_const_small|apply bech32m_const_small]. Qed.

Lemma segwit_verify_ok_iff hrp ints :
  segwit_verify hrp ints = Ok true <->
  exists v rest, ints = v :: rest /\ b32_verify_checksum (segwit_const v) hrp ints = true.
Proof.
  unfold segwit_verify, segwit_enc_const. destruct ints as [|v rest]; cbn [bind Ok].
  - split; [discriminate|]. intros (v & r & E & _). discriminate.
  - fold (segwit_const v). split.
    + intros X. inversion X as [E]. exists v, rest. rewrite E. auto.
    + intros (v' & r' & E & V). inversion E; subst. rewrite V. reflexivity.
Qed.

Lemma segwit_verify_total hrp d : d <> [] -> exists b, segwit_verify hrp d = Ok b.
Proof. destruct d; [congruence|]. intros _. eexists. reflexivity. Qed.

Lemma segwit_raw_ok_iff s hrp data :
  segwit_decode_raw s = Ok (hrp, data) <->
  dec_ascii_rule s /\ is_string_mixed s = false /\ hrp_ok33 hrp /\
  exists v rest, py_lower s = hrp ++ segwit_sep :: map bsym (v :: rest) /\ small32 (v :: rest) /\
    (segwit_cklen <= length rest)%nat /\ b32_verify_checksum (segwit_const v) hrp (v :: rest) = true /\
    data = v :: drop_last segwit_cklen rest.
Proof.
  unfold segwit_decode_raw, bech32_decode_base.
  rewrite (decode_base_ok_iff bech32_charset _ _ segwit_sep segwit_cklen _ _ _ charset_nodup
             (proj1 (proj2 (sep_stable segwit_sep (or_intror (or_introl eq_refl))))) b32_cklen_pos).
  rewrite (proj1 dec_min_data).
  split.
  - intros (CA & M & Hh & ints & El & Hs & Hl & V & Hd). apply segwit_verify_ok_iff in V.
    destruct V as (v & rest & -> & V). split; [exact CA|]. split; [exact M|]. split; [exact Hh|]. exists v, rest.
    cbn [length] in Hl. repeat split; auto; [lia|]. rewrite Hd. apply drop_last_cons. lia.
  - intros (CA & M & Hh & v & rest & El & Hs & Hl & V & Hd). split; [exact CA|]. split; [exact M|]. split; [exact Hh|].
    exists (v :: rest). repeat split; auto.
    + cbn [length]. lia.
    + apply segwit_verify_ok_iff. exists v, rest. auto.
    + rewrite Hd. symmetry. apply drop_last_cons. assumption.
Qed.

Definition segwit_prog_ok (v : N) (prog : list N) : Prop :=
  (segwit_prog_min <= length prog <= segwit_prog_max)%nat /\ v <= segwit_ver_max /\
  (v = 0 -> In (length prog) segwit_v0_lens).

Lemma existsb_eqb_In n l : existsb (Nat.eqb n) l = true <-> In n l.
Proof.
  rewrite existsb_exists. split.
  - intros (x & Hx & E). apply Nat.eqb_eq in E. subst. assumption.
  - intros H. exists n. split; [assumption|apply Nat.eqb_refl].
Qed.

Lemma segwit_rules_iff v prog :
  ((length prog <? segwit_prog_min)%nat || (segwit_prog_max <? length prog)%nat = false /\
   (segwit_ver_max <? v) = false /\
   (v =? 0) && negb (existsb (Nat.eqb (length prog)) segwit_v0_lens) = false) <-> segwit_prog_ok v prog.
Proof.
  unfold segwit_prog_ok. rewrite orb_false_iff, !Nat.ltb_ge, N.ltb_ge, andb_false_iff, negb_false_iff, N.eqb_neq, existsb_eqb_In.
  split.
  - intros ((H1 & H2) & H3 & H4). repeat split; auto. intros ->. destruct H4; [congruence|assumption].
  - intros ((H1 & H2) & H3 & H4). repeat split; auto. destruct (N.eq_dec v 0); [right; auto|left; assumption].
Qed.

Theorem segwit_decode_ok_iff hrp s v prog :
  segwit_decode hrp s = Ok (v, prog) <->
  dec_ascii_rule s /\ is_string_mixed s = false /\ hrp_ok33 hrp /\
  exists rest, py_lower s = hrp ++ segwit_sep :: map bsym (v :: rest) /\ small32 (v :: rest) /\
    (segwit_cklen <= length rest)%nat /\ b32_verify_checksum (segwit_const v) hrp (v :: rest) = true /\
    from_base32 5 8 (drop_last segwit_cklen rest) = Ok prog /\ segwit_prog_ok v prog.
Proof.
  unfold segwit_decode. split.
  - destruct (segwit_decode_raw s) as [[h d]|] eqn:R; cbn [bind Ok fst snd]; [|discriminate].
    destruct (list_eqb hrp h) eqn:E; cbn [negb]; [|discriminate]. apply list_eqb_spec in E. subst h.
    apply segwit_raw_ok_iff in R. destruct R as (CA & M & Hh & v' & rest & El & Hs & Hl & V & ->).
    cbn [tl hd_error]. rewrite b32_from_base32_eq.
    destruct (from_base32 5 8 (drop_last segwit_cklen rest)) as [conv|] eqn:F; cbn [bind Ok of_option]; [|discriminate].
    destruct (_ || _) eqn:C1; [discriminate|]. destruct (segwit_ver_max <? v') eqn:C2; [discriminate|].
    destruct (_ && _) eqn:C3; [discriminate|]. intros X. inversion X; subst.
    split; [exact CA|]. split; [exact M|]. split; [exact Hh|]. exists rest.
    split; [exact El|]. split; [exact Hs|]. split; [exact Hl|]. split; [exact V|]. split; [exact F|].
    apply segwit_rules_iff. auto.
  - intros (CA & M & Hh & rest & El & Hs & Hl & V & F & Hp).
    assert (R : segwit_decode_raw s = Ok (hrp, v :: drop_last segwit_cklen rest)).
    { apply segwit_raw_ok_iff. split; [exact CA|]. split; [exact M|]. split; [exact Hh|]. exists v, rest. auto. }
    rewrite R. cbn [bind Ok fst snd]. rewrite list_eqb_refl. cbn [negb tl hd_error].
    rewrite b32_from_base32_eq, F. cbn [bind Ok of_option].
    apply segwit_rules_iff in Hp. destruct Hp as (C1 & C2 & C3). rewrite C1, C2, C3. reflexivity.
Qed.

Theorem segwit_decode_err hrp s e :
  segwit_decode hrp s = Err e -> e = ValueError \/ e = LibError Bech32ChecksumError.
Proof.
  unfold segwit_decode. destruct (segwit_decode_raw s) as [[h d]|e'] eqn:R; cbn [bind Ok fst snd].
  - destruct (list_eqb hrp h); cbn [negb]; [|intros X; inversion X; auto].
    apply segwit_raw_ok_iff in R. destruct R as (_ & _ & _ & v' & rest & _ & _ & _ & _ & ->).
    cbn [tl hd_error]. rewrite b32_from_base32_eq.
    destruct (from_base32 5 8 _) as [conv|e''] eqn:F; cbn [bind Ok of_option].
    + destruct (_ || _); [intros X; inversion X; auto|]. destruct (segwit_ver_max <? v'); [intros X; inversion X; auto|].
      destruct (_ && _); [intros X; inversion X; auto|discriminate].
    + intros X; inversion X; subst. left. eapply from_base32_err; eauto.
  - intros X; inversion X; subst. unfold segwit_decode_raw, bech32_decode_base in R.
    eapply decode_base_err; [apply b32_cklen_pos| |exact R]. intros h d Hd. apply segwit_verify_total. assumption.
Qed.

Lemma segwit_encode_eq hrp v syms :
  encode_base bech32_charset segwit_sep segwit_compute hrp (v :: syms) =
  (chars <- mapM (char_at bech32_charset) ((v :: syms) ++ b32_compute_checksum (segwit_const v) hrp (v :: syms)) ;;
   Ok (hrp ++ [segwit_sep] ++ chars)).
Proof. reflexivity. Qed.

Theorem segwit_dec_then_enc hrp s v prog :
  segwit_decode hrp s = Ok (v, prog) -> segwit_encode hrp v prog = Ok (py_lower s).
Proof.
  intros H. apply segwit_decode_ok_iff in H. destruct H as (_ & M & Hh & rest & El & Hs & Hl & V & F & Hp).
  destruct (split_last segwit_cklen rest Hl) as [Sp Lc].
  set (d := drop_last segwit_cklen rest) in *. set (cs := take_last segwit_cklen rest) in *.
  assert (Hs' : small32 ((v :: d) ++ cs)) by (cbn [app]; rewrite <- Sp; exact Hs).
  apply small32_app in Hs'. destruct Hs' as [Hd Hc].
  apply to_from_base32 in F. destruct F as (Hpb & _ & T).
  assert (C : cs = b32_compute_checksum (segwit_const v) hrp (v :: d)).
  { apply b32_checksum_unique; auto; [apply segwit_const_small|apply hrp_ok33_chars; assumption|].
    cbn [app]. rewrite <- Sp. exact V. }
  unfold segwit_encode. rewrite b32_to_base32_eq, T. cbn [bind Ok]. rewrite segwit_encode_eq, <- C.
  rewrite (mapM_char_at bech32_charset) by (apply Forall_app; split; assumption).
  cbn [bind Ok]. rewrite El. cbn [app]. rewrite <- Sp. reflexivity.
Qed.

Theorem segwit_dec_enc hrp v prog : hrp_enc_ok hrp -> bytes_ok prog -> segwit_prog_ok v prog ->
  exists s, segwit_encode hrp v prog = Ok s /\ segwit_decode hrp s = Ok (v, prog).
Proof.
  intros Hh Hd Hp.
  assert (Hv : v < 32).
  { destruct Hp as (_ & Hp & _). destruct segwit_consts as (_ & _ & _ & E & _). rewrite E in Hp. lia. } destruct (to_base32_total prog Hd) as (syms & T & Hs).
  set (cs := b32_compute_checksum (segwit_const v) hrp (v :: syms)).
  assert (Hvs : small32 (v :: syms)) by (constructor; assumption).
  assert (Hall : small32 ((v :: syms) ++ cs)) by (apply Forall_app; split; [assumption|apply b32_compute_small]).
  exists (hrp ++ segwit_sep :: map bsym ((v :: syms) ++ cs)). split.
  - unfold segwit_encode. rewrite b32_to_base32_eq, T. cbn [bind Ok]. rewrite segwit_encode_eq. fold cs.
    rewrite (mapM_char_at bech32_charset) by assumption. reflexivity.
  - pose proof (encoded_stable hrp segwit_sep ((v :: syms) ++ cs) Hh (or_intror (or_introl eq_refl)) Hall) as St.
    assert (Lc : length cs = segwit_cklen) by apply b32_compute_length.
    apply segwit_decode_ok_iff. split; [apply encoded_ascii; auto; right; left; reflexivity|].
    split; [apply not_mixed_stable; assumption|].
    split; [apply hrp_enc_ok_33; assumption|]. exists (syms ++ cs). cbn [app] in *.
    split; [apply py_lower_stable; assumption|]. split; [assumption|]. split; [rewrite app_length; lia|].
    split; [apply (b32_verify_compute (segwit_const v) (segwit_const_small v) hrp (v :: syms));
            [apply hrp_ok33_chars, hrp_enc_ok_33; assumption|assumption]|].
    rewrite <- Lc, drop_last_app. split; [apply from_to_base32; assumption|assumption].
Qed.

(* ------------------------------------------------------------------ CashAddr *)
Lemma int_to_be_auto_byte b : b < 256 -> int_to_be_auto b = [b].
Proof.
  intros H. assert (S : forallb (fun v => list_eqb (int_to_be_auto v) [v]) (map N.of_nat (seq 0 256)) = true)
    by (vm_compute; reflexivity).
  rewrite forallb_forall in S. apply list_eqb_spec. apply S. apply in_map_iff. exists (N.to_nat b).
  split; [apply Nnat.N2Nat.id|]. apply in_seq. lia.
Qed.

Lemma cash_raw_ok_iff s hrp data :
  cash_decode_raw s = Ok (hrp, data) <->
  dec_ascii_rule s /\ is_string_mixed s = false /\ hrp_ok33 hrp /\
  exists syms, py_lower s = hrp ++ cash_sep :: map bsym syms /\ small32 syms /\
    (cash_cklen + 1 <= length syms)%nat /\ cash_verify_checksum hrp syms = true /\
    data = drop_last cash_cklen syms.
Proof.
  unfold cash_decode_raw, bech32_decode_base.
  rewrite (decode_base_ok_iff bech32_charset _ _ cash_sep cash_cklen _ _ _ charset_nodup
             (proj1 (proj2 (sep_stable cash_sep (or_intror (or_intror (or_introl eq_refl)))))) cash_cklen_pos).
  rewrite (proj1 (proj2 dec_min_data)).
  split; intros (CA & M & Hh & syms & El & Hs & Hl & V & Hd); (split; [exact CA|]); (split; [exact M|]); (split; [exact Hh|]);
    exists syms; repeat split; auto.
  - inversion V. reflexivity.
  - rewrite V. reflexivity.
Qed.

Theorem cash_decode_ok_iff hrp s nv data :
  cash_decode hrp s = Ok (nv, data) <->
  dec_ascii_rule s /\ is_string_mixed s = false /\ hrp_ok33 hrp /\
  exists syms b, py_lower s = hrp ++ cash_sep :: map bsym syms /\ small32 syms /\
    (cash_cklen + 1 <= length syms)%nat /\ cash_verify_checksum hrp syms = true /\
    from_base32 5 8 (drop_last cash_cklen syms) = Ok (b :: data) /\ nv = [b].
Proof.
  unfold cash_decode. split.
  - destruct (cash_decode_raw s) as [[h d]|] eqn:R; cbn [bind Ok fst snd]; [|discriminate].
    destruct (list_eqb hrp h) eqn:E; cbn [negb]; [|discriminate]. apply list_eqb_spec in E. subst h.
    apply cash_raw_ok_iff in R. destruct R as (CA & M & Hh & syms & El & Hs & Hl & V & ->).
    rewrite b32_from_base32_eq.
    destruct (from_base32 5 8 (drop_last cash_cklen syms)) as [conv|] eqn:F; cbn [bind Ok]; [|discriminate].
    destruct conv as [|b rest]; [discriminate|]. intros X. inversion X; subst.
    split; [exact CA|]. split; [exact M|]. split; [exact Hh|]. exists syms, b. repeat split; auto.
    apply int_to_be_auto_byte. apply from_base32_spec in F. destruct F as (_ & Hb & _). inversion Hb; assumption.
  - intros (CA & M & Hh & syms & b & El & Hs & Hl & V & F & ->).
    assert (R : cash_decode_raw s = Ok (hrp, drop_last cash_cklen syms)).
    { apply cash_raw_ok_iff. split; [exact CA|]. split; [exact M|]. split; [exact Hh|]. exists syms. auto. }
    rewrite R. cbn [bind Ok fst snd]. rewrite list_eqb_refl. cbn [negb]. rewrite b32_from_base32_eq, F. cbn [bind Ok].
    rewrite int_to_be_auto_byte; [reflexivity|].
    apply from_base32_spec in F. destruct F as (_ & Hb & _). inversion Hb; assumption.
Qed.

Theorem cash_decode_err hrp s e :
  cash_decode hrp s = Err e -> e = ValueError \/ e = LibError Bech32ChecksumError.
Proof.
  unfold cash_decode. destruct (cash_decode_raw s) as [[h d]|e'] eqn:R; cbn [bind Ok fst snd].
  - destruct (list_eqb hrp h); cbn [negb]; [|intros X; inversion X; auto].
    apply cash_raw_ok_iff in R. destruct R as (_ & _ & _ & syms & _ & _ & Hl & _ & ->).
    rewrite b32_from_base32_eq.
    destruct (from_base32 5 8 _) as [conv|e''] eqn:F; cbn [bind Ok].
    + destruct conv as [|b rest]; [|discriminate]. exfalso.
      apply from_base32_nonempty in F; [congruence|]. intro Z. apply (f_equal (@length N)) in Z.
      rewrite drop_last_length in Z. cbn [length] in Z. lia.
    + intros X; inversion X; subst. left. eapply from_base32_err; eauto.
  - intros X; inversion X; subst. unfold cash_decode_raw, bech32_decode_base in R.
    eapply decode_base_err; [apply cash_cklen_pos| |exact R]. intros h d _. eexists; reflexivity.
Qed.

Theorem cash_dec_then_enc hrp s nv data :
  cash_decode hrp s = Ok (nv, data) -> cash_encode hrp nv data = Ok (py_lower s).
Proof.
  intros H. apply cash_decode_ok_iff in H. destruct H as (_ & M & Hh & syms & b & El & Hs & Hl & V & F & ->).
  destruct (split_last cash_cklen syms ltac:(lia)) as [Sp Lc].
  set (d := drop_last cash_cklen syms) in *. set (cs := take_last cash_cklen syms) in *.
  rewrite Sp in Hs, V. apply small32_app in Hs. destruct Hs as [Hd Hc].
  apply to_from_base32 in F. destruct F as (Hp & _ & T).
  assert (C : cs = cash_compute_checksum hrp d) by (apply cash_checksum_unique; auto).
  unfold cash_encode. cbn [app]. rewrite b32_to_base32_eq, T. cbn [bind Ok].
  unfold encode_base. cbn [bind Ok]. rewrite <- C.
  rewrite (mapM_char_at bech32_charset) by (apply Forall_app; split; assumption).
  cbn [bind Ok]. rewrite El, Sp. reflexivity.
Qed.

Theorem cash_dec_enc hrp b data : hrp_enc_ok hrp -> b < 256 -> bytes_ok data ->
  exists s, cash_encode hrp [b] data = Ok s /\ cash_decode hrp s = Ok ([b], data).
Proof.
  intros Hh Hb Hd. assert (Hbd : bytes_ok (b :: data)) by (constructor; assumption).
  destruct (to_base32_total (b :: data) Hbd) as (syms & T & Hs).
  set (cs := cash_compute_checksum hrp syms).
  assert (Hall : small32 (syms ++ cs)) by (apply Forall_app; split; [assumption|apply cash_compute_small]).
  exists (hrp ++ cash_sep :: map bsym (syms ++ cs)). split.
  - unfold cash_encode. cbn [app]. rewrite b32_to_base32_eq, T. cbn [bind Ok]. unfold encode_base. cbn [bind Ok].
    fold cs. rewrite (mapM_char_at bech32_charset) by assumption. reflexivity.
  - pose proof (encoded_stable hrp cash_sep (syms ++ cs) Hh (or_intror (or_intror (or_introl eq_refl))) Hall) as St.
    assert (Lc : length cs = cash_cklen) by apply cash_compute_length.
    apply cash_decode_ok_iff. split; [apply encoded_ascii; auto; right; right; left; reflexivity|].
    split; [apply not_mixed_stable; assumption|].
    split; [apply hrp_enc_ok_33; assumption|]. exists (syms ++ cs), b.
    split; [apply py_lower_stable; assumption|]. split; [assumption|]. split.
    + rewrite app_length, Lc. pose proof (to_base32_nonempty _ _ T ltac:(discriminate)). destruct syms; [congruence|cbn [length]; lia].
    + split; [apply cash_verify_compute; assumption|]. split; [|reflexivity].
      rewrite <- Lc, drop_last_app. apply from_to_base32; assumption.
Qed.

(* ------------------------------------------------------------------ shared consequences *)
(* every character of an accepted string lower-cases into printable ASCII; hence (sweep over the whole
   code space, Lemmas/Bech32Str.v) it is ASCII itself or U+212A KELVIN SIGN *)
Lemma accepted_chars_ascii sep cklen md verify s hrp data : In sep [bech32_sep; segwit_sep; cash_sep] ->
  (1 <= cklen)%nat -> bech32_decode_base sep cklen md verify s = Ok (hrp, data) ->
  Forall (fun c => c < 128 \/ c = kelvin_sign) s.
Proof.
  intros Hsep Hck H. apply py_lower_ascii.
  apply (decode_base_chars bech32_charset _ _ sep cklen _ md verify charset_nodup (proj1 (proj2 (sep_stable sep Hsep))) Hck) in H.
  eapply Forall_impl; [|exact H]. intros x [Hx|[Hx|Hx]].
  - destruct hrp_range as [_ E]. rewrite E in Hx. lia.
  - subst x. apply sep_stable. assumption.
  - pose proof charset_ascii as A. rewrite Forall_forall in A. auto.
Qed.

Theorem bech32_accepted_chars hrp s p : bech32_decode hrp s = Ok p -> Forall (fun c => c < 128 \/ c = kelvin_sign) s.
Proof.
  unfold bech32_decode. destruct (bech32_decode_raw s) as [[h d]|] eqn:R; [|discriminate]. intros _.
  eapply (accepted_chars_ascii bech32_sep); [left; reflexivity|apply b32_cklen_pos|exact R].
Qed.

Theorem segwit_accepted_chars hrp s p : segwit_decode hrp s = Ok p -> Forall (fun c => c < 128 \/ c = kelvin_sign) s.
Proof.
  unfold segwit_decode. destruct (segwit_decode_raw s) as [[h d]|] eqn:R; [|discriminate]. intros _.
  eapply (accepted_chars_ascii segwit_sep); [right; left; reflexivity|apply b32_cklen_pos|exact R].
Qed.

Theorem cash_accepted_chars hrp s p : cash_decode hrp s = Ok p -> Forall (fun c => c < 128 \/ c = kelvin_sign) s.
Proof.
  unfold cash_decode. destruct (cash_decode_raw s) as [[h d]|] eqn:R; [|discriminate]. intros _.
  eapply (accepted_chars_ascii cash_sep); [right; right; left; reflexivity|apply cash_cklen_pos|exact R].
Qed.

(* the expected HRP is compared with the string's: two different expected HRPs never both accept *)
Theorem bech32_hrp_unique h1 h2 s p1 p2 : bech32_decode h1 s = Ok p1 -> bech32_decode h2 s = Ok p2 -> h1 = h2.
Proof.
  unfold bech32_decode. destruct (bech32_decode_raw s) as [[h d]|]; cbn [bind Ok fst snd]; [|discriminate].
  destruct (list_eqb h1 h) eqn:E1; [|discriminate]. destruct (list_eqb h2 h) eqn:E2; [|discriminate].
  apply list_eqb_spec in E1, E2. congruence.
Qed.
Theorem segwit_hrp_unique h1 h2 s p1 p2 : segwit_decode h1 s = Ok p1 -> segwit_decode h2 s = Ok p2 -> h1 = h2.
Proof.
  unfold segwit_decode. destruct (segwit_decode_raw s) as [[h d]|]; cbn [bind Ok fst snd]; [|discriminate].
  destruct (list_eqb h1 h) eqn:E1; [|discriminate]. destruct (list_eqb h2 h) eqn:E2; [|discriminate].
  apply list_eqb_spec in E1, E2. congruence.
Qed.
Theorem cash_hrp_unique h1 h2 s p1 p2 : cash_decode h1 s = Ok p1 -> cash_decode h2 s = Ok p2 -> h1 = h2.
Proof.
  unfold cash_decode. destruct (cash_decode_raw s) as [[h d]|]; cbn [bind Ok fst snd]; [|discriminate].
  destruct (list_eqb h1 h) eqn:E1; [|discriminate]. destruct (list_eqb h2 h) eqn:E2; [|discriminate].
  apply list_eqb_spec in E1, E2. congruence.
Qed.

(* where the source has the isascii() guard (bech32_dec_ascii_only = true), accepted strings are pure ASCII *)
Theorem accepted_ascii_guard hrp s : bech32_dec_ascii_only = true ->
  ((exists p, bech32_decode hrp s = Ok p) \/ (exists p, segwit_decode hrp s = Ok p) \/
   (exists p, cash_decode hrp s = Ok p)) -> Forall (fun c => c < 128) s.
Proof.
  intros G [[p H]|[[[v p] H]|[[nv d] H]]].
  - apply bech32_decode_ok_iff in H. destruct H as (CA & _). exact (CA G).
  - apply segwit_decode_ok_iff in H. destruct H as (CA & _). exact (CA G).
  - apply cash_decode_ok_iff in H. destruct H as (CA & _). exact (CA G).
Qed.

(* Proofs about Model/AddrText.v, relative to the round-trip laws of the text codecs. *)
From Coq Require Import NArith ZArith Arith List Bool Lia.
From BU Require Import Base.Exn Base.Bytes Gen.Consts Gen.AddrConsts Gen.AddrTextConsts
  Model.AddrUtils Model.AddrB58 Model.AddrText.
From BU Require Import Lemmas.AddrB58.
Import ListNotations.
Open Scope N_scope.

Lemma c2v_ok {A} (a : A) : checksum_to_value_error (Ok a) = Ok a.
Proof. reflexivity. Qed.

Section AddrTextProofs.
  Variables sha256 ripemd160 keccak256 sha512_256 : list N -> list N.
  Variable blake2b : nat -> list N -> list N.
  Variable valid_pub : N -> list N -> bool.
  Variable crc16_xmodem : list N -> list N.
  Variable bech32_enc : list N -> list N -> res (list N).
  Variable bech32_dec : list N -> list N -> res (list N).
  Variable segwit_enc : list N -> N -> list N -> res (list N).
  Variable segwit_dec : list N -> list N -> res (N * list N).
  Variable cash_enc : list N -> list N -> list N -> res (list N).
  Variable cash_dec : list N -> list N -> res (list N * list N).
  Variable b32_enc_nopad : option (list N) -> list N -> res (list N).
  Variable b32_dec : option (list N) -> list N -> res (list N).
  Variable ss58_enc : list N -> N -> res (list N).
  Variable ss58_dec : list N -> res (N * list N).
  Variable taproot_tweak : list N -> list N.

  Hypothesis rip_len : forall x, length (ripemd160 x) = 20%nat.
  Hypothesis rip_ok : forall x, bytes_ok (ripemd160 x).
  Hypothesis sha_len : forall x, length (sha256 x) = 32%nat.
  Hypothesis sha_ok : forall x, bytes_ok (sha256 x).
  Hypothesis kec_len : forall x, length (keccak256 x) = 32%nat.
  Hypothesis kec_ok : forall x, bytes_ok (keccak256 x).
  Hypothesis s5_len : forall x, length (sha512_256 x) = 32%nat.
  Hypothesis b2b_len : forall n x, length (blake2b n x) = n.
  Hypothesis crc_len : forall x, length (crc16_xmodem x) = 2%nat.

  (* codec laws: decoding what the encoder produced returns the data (discharged by the codec
     theorems where these pipelines are instantiated) *)
  Variable hrp_cond : list N -> Prop.                 (* what the codec theorem needs of an HRP *)
  Variable prog_cond : N -> list N -> Prop.           (* the witness version / program rule *)
  Hypothesis bech32_rt : forall hrp d s, hrp_cond hrp -> bytes_ok d -> d <> [] ->
    bech32_enc hrp d = Ok s -> bech32_dec hrp s = Ok d.
  Hypothesis segwit_rt : forall hrp v p s, hrp_cond hrp -> bytes_ok p -> prog_cond v p ->
    segwit_enc hrp v p = Ok s -> segwit_dec hrp s = Ok (v, p).
  Hypothesis cash_rt : forall hrp b d s, hrp_cond hrp -> b < 256 -> bytes_ok d ->
    cash_enc hrp [b] d = Ok s -> cash_dec hrp s = Ok ([b], d).
  Variable alph_ok : option (list N) -> Prop.
  Hypothesis b32_rt : forall al d s, alph_ok al -> bytes_ok d -> b32_enc_nopad al d = Ok s -> b32_dec al s = Ok d.
  Hypothesis s5_ok : forall x, bytes_ok (sha512_256 x).
  Hypothesis b2b_ok : forall n x, bytes_ok (blake2b n x).
  Hypothesis crc_ok : forall x, bytes_ok (crc16_xmodem x).
  Hypothesis ss58_rt : forall d f s, bytes_ok d -> ss58_enc d f = Ok s -> ss58_dec s = Ok (f, d).

  Notation h160 := (hash160 sha256 ripemd160).

  Lemma h160_len x : length (h160 x) = hash160_len.
  Proof. unfold hash160. rewrite rip_len. reflexivity. Qed.

  Lemma nonempty_of_len (d : list N) n : length d = n -> (0 < n)%nat -> d <> [].
  Proof. intros L P E. subst d. simpl in L. lia. Qed.

  Lemma bech32_fixed_rt hrp d n s : hrp_cond hrp -> bytes_ok d -> (0 < n)%nat ->
    bech32_enc hrp d = Ok s -> length d = n -> bech32_fixed_decode bech32_dec hrp n s = Ok d.
  Proof.
    intros Hh Hd Hn E Hl. unfold bech32_fixed_decode.
    rewrite (bech32_rt _ _ _ Hh Hd (nonempty_of_len d n Hl Hn) E). rewrite c2v_ok. cbn [bind Ok].
    rewrite validate_length_ok by exact Hl. reflexivity.
  Qed.

  Lemma h160_ok x : bytes_ok (h160 x).
  Proof. unfold hash160. apply rip_ok. Qed.

  Theorem atom_decode_encode hrp pub s : hrp_cond hrp ->
    atom_encode sha256 ripemd160 bech32_enc hrp pub = Ok s -> atom_decode bech32_dec hrp s = Ok (h160 pub).
  Proof. intros Hh E. eapply bech32_fixed_rt; [exact Hh|apply h160_ok|vm_compute; lia|exact E|apply h160_len]. Qed.

  Theorem avax_decode_encode prefix hrp pub s : hrp_cond hrp ->
    avax_encode sha256 ripemd160 bech32_enc prefix hrp pub = Ok s ->
    avax_decode bech32_dec prefix hrp s = Ok (h160 pub).
  Proof.
    intros Hh. unfold avax_encode, avax_decode.
    destruct (atom_encode sha256 ripemd160 bech32_enc hrp pub) as [a|] eqn:E; cbn [rmap]; [|discriminate].
    intros H. assert (Hs : s = prefix ++ a) by (unfold Ok in H; congruence). subst s.
    rewrite remove_prefix_app. cbn [bind Ok]. apply atom_decode_encode; assumption.
  Qed.

  Theorem egld_decode_encode pub s : hrp_cond egld_hrp -> bytes_ok pub -> egld_encode bech32_enc pub = Ok s ->
    length pub = (ed25519_compr_len - 1)%nat -> valid_pub 2 pub = true ->
    egld_decode valid_pub bech32_dec s = Ok pub.
  Proof.
    intros Hh Hb E Hl Hv. unfold egld_decode.
    assert (Hn : (0 < ed25519_compr_len - 1)%nat) by (vm_compute; lia).
    rewrite (bech32_fixed_rt egld_hrp pub _ s Hh Hb Hn E Hl).
    cbn [bind Ok]. rewrite Hv. reflexivity.
  Qed.

  Theorem zil_decode_encode pub s : hrp_cond zil_hrp -> zil_encode sha256 bech32_enc pub = Ok s ->
    zil_decode bech32_dec s = Ok (take_last zil_hash_len (sha256 pub)).
  Proof.
    intros Hh E. unfold zil_decode. eapply bech32_fixed_rt; [exact Hh|apply bytes_ok_skipn, sha_ok|vm_compute; lia|exact E|].
    unfold take_last. rewrite skipn_length, sha_len. reflexivity.
  Qed.

  (* Inj / Okex / One: the payload is the 20 Ethereum address bytes *)
  Lemma eth_bytes_spec pub_u : eth_bytes keccak256 pub_u = Ok (skipn 12 (keccak256 (tl pub_u))).
  Proof.
    unfold eth_bytes. unfold eth_encode.
    change (skipn 2 (eth_prefix ++ ?x)) with x.
    rewrite (eth_hash_hex_spec keccak256 kec_len).
    set (D := skipn 12 (keccak256 (tl pub_u))).
    assert (HD : bytes_ok D) by (apply bytes_ok_skipn, kec_ok).
    rewrite eth_cs_unfold.
    rewrite from_hex_eip55.
    - apply from_hex_to_hex, HD.
    - rewrite (dg_len keccak256 kec_len), to_hex_length. unfold D. rewrite skipn_length, kec_len. simpl. lia.
  Qed.

  Lemma eth20_len pub_u : length (skipn 12 (keccak256 (tl pub_u))) = 20%nat.
  Proof. rewrite skipn_length, kec_len. reflexivity. Qed.

  Theorem inj_decode_encode pub_u s : hrp_cond inj_hrp ->
    ethb32_encode keccak256 bech32_enc inj_hrp pub_u = Ok s ->
    inj_decode bech32_dec s = Ok (skipn 12 (keccak256 (tl pub_u))).
  Proof.
    intros Hh. unfold ethb32_encode. rewrite eth_bytes_spec. cbn [bind Ok]. intros E.
    unfold inj_decode. eapply bech32_fixed_rt; [exact Hh|apply bytes_ok_skipn, kec_ok|vm_compute; lia|exact E|apply eth20_len].
  Qed.

  Theorem ethb32_decode_encode hrp pub_u s : hrp_cond hrp ->
    ethb32_encode keccak256 bech32_enc hrp pub_u = Ok s ->
    ethb32_decode keccak256 bech32_dec hrp s = Ok (skipn 12 (keccak256 (tl pub_u))).
  Proof.
    intros Hh. unfold ethb32_encode. rewrite eth_bytes_spec. cbn [bind Ok]. intros E.
    set (D := skipn 12 (keccak256 (tl pub_u))) in *.
    assert (HD : bytes_ok D) by (apply bytes_ok_skipn, kec_ok).
    assert (ND : D <> []) by (apply (nonempty_of_len D 20); [apply eth20_len|lia]).
    unfold ethb32_decode. rewrite (bech32_rt _ _ _ Hh HD ND E). rewrite c2v_ok. cbn [bind Ok].
    unfold eth_decode. rewrite remove_prefix_app. cbn [bind Ok].
    assert (LD : length (to_hex D) = eth_addr_len).
    { rewrite to_hex_length. subst D. rewrite skipn_length, kec_len. reflexivity. }
    rewrite validate_length_ok by exact LD.
    cbn [bind Ok]. rewrite to_hex_all_hex by exact HD. cbn [negb andb]. apply from_hex_to_hex, HD.
  Qed.

  Theorem p2wpkh_decode_encode hrp pub s : hrp_cond hrp -> prog_cond p2wpkh_wit_ver (h160 pub) ->
    p2wpkh_encode sha256 ripemd160 segwit_enc hrp pub = Ok s ->
    p2wpkh_decode segwit_dec hrp s = Ok (h160 pub).
  Proof.
    unfold p2wpkh_encode, p2wpkh_decode. intros Hh Hp E. rewrite (segwit_rt _ _ _ _ Hh (h160_ok pub) Hp E).
    rewrite c2v_ok. cbn [bind Ok]. rewrite validate_length_ok by apply h160_len. cbn [bind Ok].
    rewrite N.eqb_refl. reflexivity.
  Qed.

  Theorem p2tr_decode_encode hrp pub s : hrp_cond hrp -> bytes_ok (taproot_tweak pub) ->
    prog_cond p2tr_wit_ver (taproot_tweak pub) ->
    length (taproot_tweak pub) = (secp_compr_len - 1)%nat ->
    p2tr_encode segwit_enc taproot_tweak hrp pub = Ok s ->
    p2tr_decode segwit_dec hrp s = Ok (taproot_tweak pub).
  Proof.
    unfold p2tr_encode, p2tr_decode. intros Hh Hb Hp L E. rewrite (segwit_rt _ _ _ _ Hh Hb Hp E). rewrite c2v_ok.
    cbn [bind Ok]. rewrite validate_length_ok by exact L. cbn [bind Ok]. rewrite N.eqb_refl. reflexivity.
  Qed.

  Theorem bch_p2pkh_decode_encode hrp b pub s : hrp_cond hrp -> b < 256 ->
    bch_p2pkh_encode sha256 ripemd160 cash_enc hrp [b] pub = Ok s ->
    bch_decode cash_dec hrp [b] s = Ok (h160 pub).
  Proof.
    unfold bch_decode, bch_p2pkh_encode. intros Hh Hb E. rewrite (cash_rt _ _ _ _ Hh Hb (h160_ok pub) E). rewrite c2v_ok.
    cbn [bind Ok]. rewrite list_eqb_refl. cbn [negb]. rewrite validate_length_ok by apply h160_len. reflexivity.
  Qed.

  Theorem bch_p2sh_decode_encode hrp b pub s : hrp_cond hrp -> b < 256 ->
    bch_p2sh_encode sha256 ripemd160 cash_enc hrp [b] pub = Ok s ->
    bch_decode cash_dec hrp [b] s = Ok (p2sh_script_hash sha256 ripemd160 pub).
  Proof.
    unfold bch_decode, bch_p2sh_encode. intros Hh Hb E.
    assert (Hs : bytes_ok (p2sh_script_hash sha256 ripemd160 pub)) by (unfold p2sh_script_hash; apply h160_ok).
    rewrite (cash_rt _ _ _ _ Hh Hb Hs E). rewrite c2v_ok.
    cbn [bind Ok]. rewrite list_eqb_refl. cbn [negb].
    rewrite validate_length_ok by (unfold p2sh_script_hash; apply h160_len). reflexivity.
  Qed.

  (* Base32 family *)
  Lemma algo_ck_len x : length (algo_checksum sha512_256 x) = algo_cklen.
  Proof. unfold algo_checksum, take_last. rewrite skipn_length, s5_len. reflexivity. Qed.

  Theorem algo_decode_encode pub s : alph_ok None -> bytes_ok pub ->
    algo_encode sha512_256 b32_enc_nopad pub = Ok s ->
    length pub = (ed25519_compr_len - 1)%nat -> valid_pub 2 pub = true ->
    algo_decode sha512_256 valid_pub b32_enc_nopad b32_dec s = Ok pub.
  Proof.
    intros Ha Hb E Hl Hv. unfold algo_decode. unfold algo_encode in E.
    assert (Hpl : bytes_ok (pub ++ algo_checksum sha512_256 pub)) by (apply bytes_ok_app; split; [exact Hb|apply bytes_ok_skipn, s5_ok]).
    rewrite (b32_rt _ _ _ Ha Hpl E).
    cbn [bind Ok]. unfold canonical_b32. rewrite E. cbn [bind Ok]. rewrite list_eqb_refl.
    cbn [bind Ok]. rewrite validate_length_ok.
    2:{ rewrite app_length, algo_ck_len, Hl. reflexivity. }
    cbn [bind Ok]. unfold split_by_checksum.
    rewrite (drop_last_app' algo_cklen), (take_last_app' algo_cklen) by apply algo_ck_len.
    unfold validate_checksum. rewrite list_eqb_refl. cbn [bind Ok]. rewrite Hv. reflexivity.
  Qed.

  Lemma xlm_ck_len x : length (xlm_checksum crc16_xmodem x) = xlm_cklen.
  Proof. unfold xlm_checksum. rewrite rev_length, crc_len. reflexivity. Qed.

  Theorem xlm_decode_encode t pub s : alph_ok None -> t < 256 -> bytes_ok pub ->
    xlm_encode crc16_xmodem b32_enc_nopad t pub = Ok s ->
    length pub = (ed25519_compr_len - 1)%nat -> valid_pub 2 pub = true ->
    xlm_decode valid_pub crc16_xmodem b32_dec t s = Ok pub.
  Proof.
    intros Ha Ht Hb E Hl Hv. unfold xlm_decode. unfold xlm_encode in E.
    set (payload := [t] ++ pub) in *.
    assert (Hp : bytes_ok payload) by (constructor; auto).
    assert (Hpl : bytes_ok (payload ++ xlm_checksum crc16_xmodem payload)) by (apply bytes_ok_app; split; [exact Hp|apply bytes_ok_rev, crc_ok]).
    rewrite (b32_rt _ _ _ Ha Hpl E).
    cbn [bind Ok]. rewrite validate_length_ok.
    2:{ rewrite app_length, xlm_ck_len. unfold payload. rewrite app_length, Hl. reflexivity. }
    cbn [bind Ok]. unfold split_by_checksum.
    rewrite (drop_last_app' xlm_cklen), (take_last_app' xlm_cklen) by apply xlm_ck_len.
    unfold payload at 1. cbn [app]. rewrite N.eqb_refl. cbn [negb].
    unfold validate_checksum. fold payload. rewrite list_eqb_refl. cbn [bind Ok]. rewrite Hv. reflexivity.
  Qed.

  Theorem fil_decode_encode pub_u s : alph_ok (Some fil_alphabet) ->
    fil_encode blake2b b32_enc_nopad pub_u = Ok s ->
    fil_decode blake2b b32_enc_nopad b32_dec s = Ok (blake2b blake2b160_len pub_u).
  Proof.
    intros Ha. unfold fil_encode. set (h := blake2b blake2b160_len pub_u).
    destruct (b32_enc_nopad (Some fil_alphabet) (h ++ fil_checksum blake2b fil_secp_type h)) as [e|] eqn:E;
      cbn [bind Ok]; [|discriminate].
    intros H. assert (Hs : s = fil_prefix ++ [48 + fil_secp_type] ++ e) by (unfold Ok in H; congruence).
    subst s. clear H. unfold fil_decode.
    rewrite remove_prefix_app. cbn [bind Ok app].
    assert (T : Z.eqb (Z.of_N (48 + fil_secp_type) - 48) (Z.of_N fil_secp_type) = true) by (vm_compute; reflexivity).
    rewrite T. cbn [negb].
    assert (Hck : length (fil_checksum blake2b fil_secp_type h) = blake2b32_len) by apply b2b_len.
    assert (Hpl : bytes_ok (h ++ fil_checksum blake2b fil_secp_type h)) by (apply bytes_ok_app; split; apply b2b_ok).
    rewrite (b32_rt _ _ _ Ha Hpl E).
    cbn [bind Ok]. unfold canonical_b32. rewrite E. cbn [bind Ok]. rewrite list_eqb_refl.
    cbn [bind Ok]. rewrite validate_length_ok.
    2:{ rewrite app_length, Hck. unfold h. rewrite b2b_len. reflexivity. }
    cbn [bind Ok]. unfold split_by_checksum.
    rewrite (drop_last_app' blake2b32_len), (take_last_app' blake2b32_len) by exact Hck.
    unfold validate_checksum. rewrite list_eqb_refl. reflexivity.
  Qed.

  (* Nano: the three zero pad bytes encode to the four pad symbols, which are cut off and put back *)
  Hypothesis nano_pad_law : forall x e, bytes_ok x ->
    b32_enc_nopad (Some nano_alphabet) (nano_pad_dec ++ x) = Ok e ->
    firstn (length nano_pad_enc) e = nano_pad_enc.

  Theorem nano_decode_encode pub s : alph_ok (Some nano_alphabet) -> bytes_ok pub ->
    nano_encode blake2b b32_enc_nopad pub = Ok s ->
    length pub = (ed25519_compr_len - 1)%nat -> valid_pub 3 pub = true ->
    nano_decode blake2b valid_pub b32_dec s = Ok pub.
  Proof.
    intros Ha Hb. unfold nano_encode. set (body := pub ++ nano_checksum blake2b pub).
    destruct (b32_enc_nopad (Some nano_alphabet) (nano_pad_dec ++ body)) as [e|] eqn:E; cbn [bind Ok]; [|discriminate].
    intros H Hl Hv.
    assert (Hbody : bytes_ok body) by (apply bytes_ok_app; split; [exact Hb|apply bytes_ok_rev, b2b_ok]).
    assert (Hpd : bytes_ok (nano_pad_dec ++ body)) by (apply bytes_ok_app; split; [vm_compute; repeat constructor|exact Hbody]). assert (Hs : s = nano_prefix ++ skipn (length nano_pad_enc) e) by (unfold Ok in H; congruence).
    subst s. clear H. unfold nano_decode.
    assert (Hck : length (nano_checksum blake2b pub) = blake2b40_len).
    { unfold nano_checksum. rewrite rev_length. apply b2b_len. }
    rewrite remove_prefix_app. cbn [bind Ok].
    assert (Ee : nano_pad_enc ++ skipn (length nano_pad_enc) e = e).
    { pose proof (nano_pad_law _ _ Hbody E) as P. rewrite <- P at 1. apply firstn_skipn. }
    rewrite Ee. rewrite (b32_rt _ _ _ Ha Hpd E).
    cbn [bind Ok]. rewrite validate_length_ok.
    2:{ rewrite app_length. unfold body. rewrite app_length, Hck, Hl. vm_compute. reflexivity. }
    cbn [bind Ok]. rewrite remove_prefix_app. cbn [bind Ok].
    rewrite skipn_app, Nat.sub_diag, skipn_all. cbn [app skipn].
    unfold split_by_checksum, body.
    rewrite (drop_last_app' blake2b40_len), (take_last_app' blake2b40_len) by exact Hck.
    unfold validate_checksum. rewrite list_eqb_refl. cbn [bind Ok]. rewrite Hv. reflexivity.
  Qed.

  (* Nimiq *)
  Hypothesis b32_enc_in_alph : forall al d s, alph_ok (Some al) -> bytes_ok d ->
    b32_enc_nopad (Some al) d = Ok s -> forallb (fun c => memb c al) s = true.
  Hypothesis b32_enc_len20 : forall al d s, alph_ok (Some al) -> bytes_ok d -> length d = 20%nat ->
    b32_enc_nopad (Some al) d = Ok s -> length s = 32%nat.

  Lemma nim_groups_filter fuel : forall s, (length s <= fuel)%nat -> forallb (fun c => negb (c =? 32)) s = true ->
    filter (fun c => negb (c =? 32)) (nim_groups fuel s) = s.
  Proof.
    assert (F : forall s, forallb (fun c => negb (c =? 32)) s = true -> filter (fun c => negb (c =? 32)) s = s).
    { induction s as [|c s IH]; simpl; [reflexivity|]. intros H. apply andb_true_iff in H. destruct H as [H1 H2].
      rewrite H1. f_equal. auto. }
    induction fuel as [|f IH]; intros s L H; cbn [nim_groups]; [apply F; exact H|].
    destruct (Nat.leb_spec (length s) nim_group_len) as [|G]; [apply F; exact H|].
    rewrite filter_app. cbn [app filter]. rewrite N.eqb_refl. cbn [negb].
    rewrite <- (firstn_skipn nim_group_len s) in H. rewrite forallb_app in H. apply andb_true_iff in H.
    destruct H as [H1 H2]. rewrite (F _ H1), IH; [apply firstn_skipn| |exact H2].
    rewrite skipn_length. assert (0 < nim_group_len)%nat by (vm_compute; lia). lia.
  Qed.

  Lemma alph_no_space s : forallb (fun c => memb c nim_alphabet) s = true -> forallb (fun c => negb (c =? 32)) s = true.
  Proof.
    induction s as [|c s IH]; simpl; [reflexivity|]. intros H. apply andb_true_iff in H. destruct H as [H1 H2].
    rewrite IH by exact H2. rewrite andb_true_r.
    destruct (N.eqb_spec c 32) as [->|]; [|reflexivity]. vm_compute in H1. discriminate.
  Qed.

  Theorem nim_decode_encode pub s : alph_ok (Some nim_alphabet) ->
    nim_encode blake2b b32_enc_nopad pub = Ok s ->
    nim_decode b32_dec s = Ok (firstn nim_hash_len (blake2b blake2b256_len pub)).
  Proof.
    intros Ha. unfold nim_encode. set (h := firstn nim_hash_len (blake2b blake2b256_len pub)).
    destruct (b32_enc_nopad (Some nim_alphabet) h) as [e|] eqn:E; cbn [bind Ok]; [|discriminate].
    intros H. assert (Hs : s = nim_prefix ++ nim_checksum e ++ [32] ++ nim_groups (length e) e) by (unfold Ok in H; congruence).
    subst s. clear H.
    assert (Hhb : bytes_ok h) by (apply bytes_ok_firstn, b2b_ok).
    pose proof (b32_enc_in_alph _ _ _ Ha Hhb E) as HA.
    assert (Hh : length h = 20%nat) by (unfold h; rewrite firstn_length, b2b_len; reflexivity).
    pose proof (b32_enc_len20 _ _ _ Ha Hhb Hh E) as HL.
    unfold nim_decode.
    assert (Fl : filter (fun c => negb (c =? 32)) (nim_prefix ++ nim_checksum e ++ [32] ++ nim_groups (length e) e)
                 = nim_prefix ++ nim_checksum e ++ e).
    { rewrite !filter_app. rewrite nim_groups_filter; [|lia|apply alph_no_space; exact HA].
      assert (P1 : filter (fun c => negb (c =? 32)) nim_prefix = nim_prefix) by (vm_compute; reflexivity).
      assert (P2 : filter (fun c => negb (c =? 32)) [32] = []) by (vm_compute; reflexivity).
      rewrite P1, P2. cbn [app]. f_equal. f_equal.
      unfold nim_checksum. cbn [filter].
      assert (D : forall x, (48 + x =? 32) = false).
      { intros x. apply N.eqb_neq. intro Hc. pose proof (N.le_add_r 48 x) as P. rewrite Hc in P.
        apply N.leb_le in P. vm_compute in P. discriminate. }
      rewrite !D. reflexivity. }
    rewrite Fl. rewrite remove_prefix_app. cbn [bind Ok].
    assert (Lck : length (nim_checksum e) = nim_ck_enc_len) by reflexivity.
    rewrite validate_length_ok by (rewrite app_length, Lck, HL; reflexivity). cbn [bind Ok].
    assert (F1 : firstn nim_ck_enc_len (nim_checksum e ++ e) = nim_checksum e).
    { rewrite <- Lck. rewrite firstn_app, Nat.sub_diag, firstn_all, firstn_O, app_nil_r. reflexivity. }
    assert (S1 : skipn nim_ck_enc_len (nim_checksum e ++ e) = e).
    { rewrite <- Lck. rewrite skipn_app, Nat.sub_diag, skipn_all. reflexivity. }
    rewrite F1, S1.
    rewrite HA. cbn [negb]. unfold validate_checksum. rewrite list_eqb_refl. cbn [bind Ok].
    apply (b32_rt _ _ _ Ha Hhb E).
  Qed.

  (* SS58 *)
  Theorem substrate_decode_encode curve fmt pub s : bytes_ok pub -> valid_pub curve pub = true ->
    substrate_encode ss58_enc fmt pub = Ok s ->
    substrate_decode valid_pub ss58_dec curve fmt s = Ok pub.
  Proof.
    unfold substrate_encode, substrate_decode. intros Hb Hv E. rewrite (ss58_rt _ _ _ Hb E). rewrite c2v_ok.
    cbn [bind Ok]. rewrite N.eqb_refl. cbn [negb]. rewrite Hv. reflexivity.
  Qed.
End AddrTextProofs.

(* The overlap table of the nine BIP-39 lists, second half (built in parallel with
   Lemmas/Bip39WordlistsOk.v): which pairs are disjoint, and the two overlaps exactly. *)
From Coq Require Import NArith Arith List Bool Lia.
From BU Require Import Base.Bytes Gen.Bip39Consts Gen.WlBip39 Model.Bip39 Lemmas.Bip39WlAux.
Import ListNotations.
Open Scope N_scope.


(* which pairs share words at all: only (zh-simplified, zh-traditional) and (english, french) *)
Definition overlapping (j k : nat) : bool :=
  (Nat.eqb j lang_chinese_simplified && Nat.eqb k lang_chinese_traditional) ||
  (Nat.eqb j lang_english && Nat.eqb k lang_french).
Lemma bip39_disjoint_tableb :
  forallb (fun k => forallb (fun j => overlapping j k || disjointb (lang_at j) (lang_at k)) (seq 0 k)) (seq 0 9) = true.
Proof. vm_compute. reflexivity. Qed.

Lemma bip39_disjoint j k : (j < k)%nat -> (k < 9)%nat -> overlapping j k = false ->
  disjoint (lang_at j) (lang_at k).
Proof.
  intros Hjk Hk Ho. pose proof bip39_disjoint_tableb as H. rewrite forallb_forall in H.
  specialize (H k ltac:(apply in_seq; lia)). rewrite forallb_forall in H.
  specialize (H j ltac:(apply in_seq; lia)). rewrite Ho in H. apply disjointb_sound. exact H.
Qed.

(* the two overlaps, exactly (word equality, not keys): 1275 characters shared by the two Chinese
   lists, all at equal indices; 100 words shared by English and French, all at different indices *)
Definition index_pairs (A B : list (list N)) : list (option nat * option nat) :=
  map (fun w => (word_index A w, word_index B w)) (shared A B).

Lemma zh_shared : length (shared wl_bip39_chinese_simplified wl_bip39_chinese_traditional) = 1275%nat /\
  forallb (fun p => match p with (Some i, Some j) => Nat.eqb i j | _ => false end)
          (index_pairs wl_bip39_chinese_simplified wl_bip39_chinese_traditional) = true.
Proof. vm_compute. auto. Qed.

Lemma en_fr_shared : length (shared wl_bip39_english wl_bip39_french) = 100%nat /\
  forallb (fun p => match p with (Some i, Some j) => negb (Nat.eqb i j) | _ => false end)
          (index_pairs wl_bip39_english wl_bip39_french) = true.
Proof. vm_compute. auto. Qed.

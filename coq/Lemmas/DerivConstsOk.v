(* Facts about the derivation constants regenerated from /repo (Gen/DerivConsts.v), re-proved by the
   kernel on every run.  Each one says "the library's constant is the standard's" -- the standards'
   values are the literals of Model/SpecSlip10.v.  A source edit that changes a key string, a
   length, the hardened bit or a curve order breaks the lemma and, through it, every C03/C04 theorem. *)
From Coq Require Import NArith List Lia.
From BU Require Import Gen.DerivConsts Model.SpecSlip10.
Import ListNotations.
Open Scope N_scope.

Lemma half_len_32 : hmac512_half_len = 32%nat. Proof. reflexivity. Qed.
Lemma ecdsa_priv_len_32 : ecdsa_priv_len = 32%nat. Proof. reflexivity. Qed.
Lemma ed25519_priv_len_32 : ed25519_priv_len = 32%nat. Proof. reflexivity. Qed.
Lemma ed25519_pub_prefix_0 : ed25519_pub_prefix = [0]. Proof. reflexivity. Qed.
Lemma index_len_4 : bip32_index_len = 4%nat. Proof. reflexivity. Qed.
Lemma index_max_val : bip32_index_max = 2 ^ 32 - 1. Proof. reflexivity. Qed.
Lemma hardened_bit_31 : bip32_hardened_bit = 31. Proof. reflexivity. Qed.
Lemma priv_prefix_0 : slip10_priv_prefix = [0]. Proof. reflexivity. Qed.
Lemma retry_prefix_1 : slip10_retry_prefix = [1]. Proof. reflexivity. Qed.
Lemma seed_min_16 : slip10_seed_min_len = 16%nat. Proof. reflexivity. Qed.
Lemma fprint_len_4 : bip32_fprint_len = 4%nat. Proof. reflexivity. Qed.
Lemma chaincode_len_32 : bip32_chaincode_len = 32%nat. Proof. reflexivity. Qed.
Lemma fprint_master_zero : bip32_fprint_master = master_fingerprint. Proof. reflexivity. Qed.

Lemma hmac_key_secp256k1_ok : slip10_hmac_key_secp256k1 = curve_bitcoin_seed. Proof. reflexivity. Qed.
Lemma hmac_key_nist256p1_ok : slip10_hmac_key_nist256p1 = curve_nist256p1_seed. Proof. reflexivity. Qed.
Lemma hmac_key_ed25519_ok : slip10_hmac_key_ed25519 = curve_ed25519_seed. Proof. reflexivity. Qed.

Lemma secp256k1_order_ok : secp256k1_order = sec2_secp256k1_n. Proof. vm_compute. reflexivity. Qed.
Lemma nist256p1_order_ok : nist256p1_order = sec2_secp256r1_n. Proof. vm_compute. reflexivity. Qed.

Lemma secp256k1_order_range : 1 < secp256k1_order < 2 ^ 256.
Proof. split; vm_compute; reflexivity. Qed.
Lemma nist256p1_order_range : 1 < nist256p1_order < 2 ^ 256.
Proof. split; vm_compute; reflexivity. Qed.

Lemma ecdsa_order_range n : In n [secp256k1_order; nist256p1_order] -> 1 < n < 2 ^ 256.
Proof.
  intros [<-|[<-|[]]]; [apply secp256k1_order_range|apply nist256p1_order_range].
Qed.

(* Facts about Model/CborEnc.v and the indefinite-length array codec of Model/AddrAdaByron.v. *)
From Coq Require Import NArith Arith List Lia Bool.
From BU Require Import Base.Exn Base.Radix Base.Bytes Gen.ConstsCardmon Model.EdLib Model.CborEnc Model.AddrAdaByron Lemmas.EdLib.
Import ListNotations.
Open Scope N_scope.

Lemma le_pad_ok w v : bytes_ok (le_pad w v).
Proof. unfold le_pad. apply bytes_ok_app; split; [apply (to_le_digits 256 r256)|apply bytes_ok_repeat0]. Qed.
Lemma be_pad_ok w v : bytes_ok (be_pad w v).
Proof. apply bytes_ok_rev, le_pad_ok. Qed.
Lemma be_pad_props w v : v < 256 ^ N.of_nat w -> length (be_pad w v) = w /\ be_to_int (be_pad w v) = v.
Proof.
  intros H. destruct (le_pad_props w v H) as (_ & L & V). unfold be_pad. rewrite rev_length. split; [exact L|].
  unfold be_to_int, from_be. rewrite rev_involutive. exact V.
Qed.

Lemma cbor_head_ok major n : major <= 7 -> bytes_ok (cbor_head major n).
Proof.
  intros Hm. unfold cbor_head.
  destruct (N.ltb_spec n 24); [constructor; [lia|constructor]|].
  destruct (N.ltb_spec n (2 ^ 8)) as [H8|]; [constructor; [lia|constructor; [exact H8|constructor]]|].
  destruct (n <? 2 ^ 16); [constructor; [lia|apply be_pad_ok]|].
  destruct (n <? 2 ^ 32); constructor; try lia; apply be_pad_ok.
Qed.

Lemma cbor_bytes_ok b : bytes_ok b -> bytes_ok (cbor_bytes b).
Proof. intros H. apply bytes_ok_app; split; [apply cbor_head_ok; lia|exact H]. Qed.
Lemma concat_ok (l : list (list N)) : Forall bytes_ok l -> bytes_ok (concat l).
Proof. induction 1; simpl; [constructor|apply bytes_ok_app; split; assumption]. Qed.
Lemma cbor_array_ok items : Forall bytes_ok items -> bytes_ok (cbor_array items).
Proof. intros H. apply bytes_ok_app; split; [apply cbor_head_ok; lia|apply concat_ok; exact H]. Qed.
Lemma cbor_uint_ok n : bytes_ok (cbor_uint n).
Proof. apply cbor_head_ok; lia. Qed.
Lemma cbor_tag_ok t item : bytes_ok item -> bytes_ok (cbor_tag t item).
Proof. intros H. apply bytes_ok_app; split; [apply cbor_head_ok; lia|exact H]. Qed.

(* the generated constants of the codec *)
Lemma indef_consts : cbor_indef_start = 159 /\ cbor_indef_end = 255 /\ (cbor_indef_min_len <= 2)%nat /\
  forall x, indef_elem_len x =
    if x =? 24 then 2%nat else if x =? 25 then 3%nat else if x =? 26 then 5%nat else if x =? 27 then 9%nat else 1%nat.
Proof. split; [reflexivity|]. split; [reflexivity|]. split; [vm_compute; lia|]. intros x. reflexivity. Qed.

(* ---- one unsigned integer as an element of the indefinite array ---- *)
Lemma uint_elem n : n < 2 ^ 64 ->
  exists x t, cbor_uint n = x :: t /\ x <> 255 /\ x <= 27 /\
    indef_elem_len x = length (cbor_uint n) /\ indef_elem (cbor_uint n) = Ok n.
Proof.
  intros H. unfold cbor_uint, cbor_head. cbn [N.mul N.add Pos.add Pos.mul].
  destruct (N.ltb_spec n 24) as [H0|H0].
  { exists n, []. repeat split; try lia.
    - rewrite (proj2 (proj2 (proj2 indef_consts))). destruct (N.eqb_spec n 24); [lia|]. destruct (N.eqb_spec n 25); [lia|].
      destruct (N.eqb_spec n 26); [lia|]. destruct (N.eqb_spec n 27); [lia|]. reflexivity.
    - unfold indef_elem. destruct (N.ltb_spec n 24); [reflexivity|lia]. }
  destruct (N.ltb_spec n (2 ^ 8)) as [H1|H1].
  { exists 24, [n]. repeat split; try lia. unfold indef_elem. cbn.
    unfold be_to_int, from_be. cbn. f_equal. lia. }
  destruct (N.ltb_spec n (2 ^ 16)) as [H2|H2].
  { destruct (be_pad_props 2 n H2) as [L V]. exists 25, (be_pad 2 n). repeat split; try lia.
    - cbn [length]. rewrite L. reflexivity.
    - unfold indef_elem. cbn [N.ltb N.leb N.compare]. cbn [length]. rewrite L. cbn. rewrite V. reflexivity. }
  destruct (N.ltb_spec n (2 ^ 32)) as [H3|H3].
  { destruct (be_pad_props 4 n H3) as [L V]. exists 26, (be_pad 4 n). repeat split; try lia.
    - cbn [length]. rewrite L. reflexivity.
    - unfold indef_elem. cbn [length]. rewrite L. cbn. rewrite V. reflexivity. }
  destruct (be_pad_props 8 n H) as [L V]. exists 27, (be_pad 8 n). repeat split; try lia.
  - cbn [length]. rewrite L. reflexivity.
  - unfold indef_elem. cbn [length]. rewrite L. cbn. rewrite V. reflexivity.
Qed.

Lemma indef_elems_rt l : Forall (fun n => n < 2 ^ 64) l -> forall fuel, (length l < fuel)%nat ->
  indef_elems fuel (concat (map cbor_uint l) ++ [255]) = Ok l.
Proof.
  induction 1 as [|n l Hn Hl IH]; intros fuel Hf; (destruct fuel as [|f]; [simpl in Hf; lia|]).
  - reflexivity.
  - cbn [map concat]. destruct (uint_elem n Hn) as (x & t & E & NE & _ & Len & El).
    rewrite <- app_assoc. rewrite E at 1. cbn [indef_elems app].
    rewrite (proj1 (proj2 indef_consts)). destruct (N.eqb_spec x 255); [contradiction|].
    rewrite Len. rewrite !app_comm_cons. rewrite <- E.
    rewrite firstn_app, Nat.sub_diag, firstn_all. cbn [firstn]. rewrite app_nil_r, El. cbn [bind].
    rewrite skipn_app, Nat.sub_diag, skipn_all. cbn [skipn app].
    rewrite IH by (simpl in Hf; lia). reflexivity.
Qed.

Lemma cbor_uint_nonempty n : (1 <= length (cbor_uint n))%nat.
Proof.
  unfold cbor_uint, cbor_head. repeat match goal with |- context [if ?c then _ else _] => destruct c end; simpl; lia.
Qed.

Lemma concat_uint_length l : (length l <= length (concat (map cbor_uint l)))%nat.
Proof.
  induction l as [|n l IH]; simpl; [lia|]. rewrite app_length. pose proof (cbor_uint_nonempty n). lia.
Qed.

(* the codec of the HD path: every list of integers below 2^64 survives the round trip *)
Theorem indef_decode_encode l : Forall (fun n => n < 2 ^ 64) l -> indef_decode (indef_encode l) = Ok l.
Proof.
  intros H. unfold indef_decode, indef_encode.
  destruct indef_consts as (S159 & E255 & Lmin & _). rewrite S159, E255.
  pose proof (concat_uint_length l) as CL.
  cbn [app hd tl]. rewrite N.eqb_refl.
  assert (Len : length (159 :: concat (map cbor_uint l) ++ [255]) = S (length (concat (map cbor_uint l)) + 1))
    by (cbn [length]; rewrite app_length; reflexivity).
  rewrite Len. destruct (Nat.leb_spec cbor_indef_min_len (S (length (concat (map cbor_uint l)) + 1))); [|lia].
  replace (last (159 :: concat (map cbor_uint l) ++ [255]) 0) with 255.
  2:{ change (159 :: concat (map cbor_uint l) ++ [255]) with ((159 :: concat (map cbor_uint l)) ++ [255]).
      rewrite last_last. reflexivity. }
  cbn [N.eqb Pos.eqb]. apply indef_elems_rt; [exact H|lia].
Qed.

(* ---- sizes ---- *)
Lemma cbor_head_length major n : n < 2 ^ 64 -> (length (cbor_head major n) <= 9)%nat.
Proof.
  intros H. unfold cbor_head.
  destruct (n <? 24); [simpl; lia|]. destruct (n <? 2 ^ 8); [simpl; lia|].
  destruct (N.ltb_spec n (2 ^ 16)) as [H2|]; [cbn [length]; rewrite (proj1 (be_pad_props 2 n H2)); lia|].
  destruct (N.ltb_spec n (2 ^ 32)) as [H3|]; [cbn [length]; rewrite (proj1 (be_pad_props 4 n H3)); lia|].
  cbn [length]. rewrite (proj1 (be_pad_props 8 n H)). lia.
Qed.

Lemma small_len (k : nat) : (k < 4096)%nat -> N.of_nat k < 2 ^ 64.
Proof. intros H. assert (N.of_nat k < 4096) by lia. assert (4096 < 2 ^ 64) by reflexivity. lia. Qed.

Lemma cbor_bytes_length b : (length b < 4096)%nat -> (length (cbor_bytes b) <= length b + 9)%nat.
Proof.
  intros H. unfold cbor_bytes. rewrite app_length. pose proof (cbor_head_length 2 _ (small_len _ H)). lia.
Qed.

(* ---- a decoder for the three shapes (RFC 8949 heads), showing that the parse laws assumed of cbor2 in
        Lemmas/AddrAdaByron.v are satisfiable ---- *)
Definition take_be (w : nat) (t : list N) : option (N * list N) :=
  if (w <=? length t)%nat then Some (be_to_int (firstn w t), skipn w t) else None.
Definition parse_head (b : list N) : option (N * N * list N) :=
  match b with
  | [] => None
  | x :: t =>
    let major := x / 32 in
    let ai := x mod 32 in
    if ai <? 24 then Some (major, ai, t)
    else
      match (if ai =? 24 then take_be 1 t else if ai =? 25 then take_be 2 t
             else if ai =? 26 then take_be 4 t else if ai =? 27 then take_be 8 t else None) with
      | Some (v, r) => Some (major, v, r)
      | None => None
      end
  end.

Lemma take_be_pad w n rest : n < 256 ^ N.of_nat w -> take_be w (be_pad w n ++ rest) = Some (n, rest).
Proof.
  intros H. destruct (be_pad_props w n H) as [L V]. unfold take_be. rewrite app_length, L.
  destruct (Nat.leb_spec w (w + length rest)); [|lia].
  rewrite <- L at 1 3. rewrite firstn_app, Nat.sub_diag, firstn_all. cbn [firstn]. rewrite app_nil_r, V.
  rewrite skipn_app, Nat.sub_diag, skipn_all. reflexivity.
Qed.

Lemma head_byte major k : k < 32 -> (major * 32 + k) / 32 = major /\ (major * 32 + k) mod 32 = k.
Proof.
  intros H. split.
  - symmetry. apply N.div_unique with (r := k); lia.
  - symmetry. apply N.mod_unique with (q := major); lia.
Qed.

Lemma parse_head_enc major n rest : n < 2 ^ 64 -> parse_head (cbor_head major n ++ rest) = Some (major, n, rest).
Proof.
  intros H. unfold cbor_head.
  destruct (N.ltb_spec n 24) as [H0|H0].
  { cbn [app parse_head]. destruct (head_byte major n ltac:(lia)) as [-> ->].
    destruct (N.ltb_spec n 24); [reflexivity|lia]. }
  destruct (N.ltb_spec n (2 ^ 8)) as [H1|H1].
  { cbn [app parse_head]. destruct (head_byte major 24 ltac:(lia)) as [-> ->]. cbn.
    unfold take_be. cbn. unfold be_to_int, from_be. cbn. do 3 f_equal. lia. }
  destruct (N.ltb_spec n (2 ^ 16)) as [H2|H2].
  { cbn [app parse_head]. destruct (head_byte major 25 ltac:(lia)) as [-> ->]. cbn [N.ltb N.eqb N.compare Pos.compare Pos.compare_cont Pos.eqb].
    rewrite (take_be_pad 2 n rest H2). reflexivity. }
  destruct (N.ltb_spec n (2 ^ 32)) as [H3|H3].
  { cbn [app parse_head]. destruct (head_byte major 26 ltac:(lia)) as [-> ->]. cbn [N.ltb N.eqb N.compare Pos.compare Pos.compare_cont Pos.eqb].
    rewrite (take_be_pad 4 n rest H3). reflexivity. }
  cbn [app parse_head]. destruct (head_byte major 27 ltac:(lia)) as [-> ->]. cbn [N.ltb N.eqb N.compare Pos.compare Pos.compare_cont Pos.eqb].
  rewrite (take_be_pad 8 n rest H). reflexivity.
Qed.

(* a byte string item followed by [rest] *)
Definition parse_bstr (b : list N) : option (list N * list N) :=
  match parse_head b with
  | Some (2, len, t) => if (N.to_nat len <=? length t)%nat then Some (firstn (N.to_nat len) t, skipn (N.to_nat len) t) else None
  | _ => None
  end.
Lemma parse_bstr_enc b rest : (length b < 4096)%nat -> parse_bstr (cbor_bytes b ++ rest) = Some (b, rest).
Proof.
  intros H. unfold parse_bstr, cbor_bytes. rewrite <- app_assoc, (parse_head_enc 2 _ _ (small_len _ H)).
  rewrite Nnat.Nat2N.id, app_length. destruct (Nat.leb_spec (length b) (length b + length rest)); [|lia].
  rewrite firstn_app, Nat.sub_diag, firstn_all. cbn [firstn]. rewrite app_nil_r.
  rewrite skipn_app, Nat.sub_diag, skipn_all. reflexivity.
Qed.

Definition toy_parse_bytes (b : list N) : option (list N) :=
  match parse_bstr b with Some (v, []) => Some v | _ => None end.
Definition toy_parse_outer (b : list N) : option (N * list N * N) :=
  match parse_head b with
  | Some (4, 2, t) =>
    match parse_head t with
    | Some (6, tag, t2) =>
      match parse_bstr t2 with
      | Some (v, t3) => match parse_head t3 with Some (0, c, []) => Some (tag, v, c) | _ => None end
      | None => None
      end
    | _ => None
    end
  | _ => None
  end.
(* [bytes root, {} or {1: bytes}, uint type] *)
Definition toy_parse_payload (b : list N) : option (list N * option (list N) * N) :=
  match parse_head b with
  | Some (4, 3, t) =>
    match parse_bstr t with
    | Some (rh, t2) =>
      match parse_head t2 with
      | Some (5, 0, t3) => match parse_head t3 with Some (0, ty, []) => Some (rh, None, ty) | _ => None end
      | Some (5, 1, t3) =>
        match parse_head t3 with
        | Some (0, 1, t4) =>
          match parse_bstr t4 with
          | Some (v, t5) => match parse_head t5 with Some (0, ty, []) => Some (rh, Some v, ty) | _ => None end
          | None => None
          end
        | _ => None
        end
      | _ => None
      end
    | None => None
    end
  | _ => None
  end.

Lemma toy_parse_bytes_enc b : (length b < 4096)%nat -> toy_parse_bytes (cbor_bytes b) = Some b.
Proof.
  intros H. unfold toy_parse_bytes. rewrite <- (app_nil_r (cbor_bytes b)), (parse_bstr_enc b [] H). reflexivity.
Qed.

Lemma toy_parse_outer_enc crc tag p : (length p < 4096)%nat -> tag < 2 ^ 64 -> crc p < 2 ^ 64 ->
  toy_parse_outer (cbor_array [cbor_tag tag (cbor_bytes p); cbor_uint (crc p)]) = Some (tag, p, crc p).
Proof.
  intros H Ht Hc. unfold toy_parse_outer, cbor_array, cbor_tag, cbor_uint. cbn [length N.of_nat concat].
  rewrite (parse_head_enc 4 2) by reflexivity. cbn [Pos.of_succ_nat Pos.succ].
  rewrite app_nil_r, <- !app_assoc, (parse_head_enc 6 tag _ Ht), (parse_bstr_enc p _ H).
  rewrite <- (app_nil_r (cbor_head 0 (crc p))), (parse_head_enc 0 _ [] Hc). reflexivity.
Qed.

Lemma toy_parse_payload_enc rh enc ty : (length rh < 4096)%nat -> ty < 2 ^ 64 ->
  (match enc with Some e => (length e < 4000)%nat | None => True end) ->
  toy_parse_payload (payload_cbor rh enc ty) = Some (rh, option_map cbor_bytes enc, ty).
Proof.
  intros H Ht He. unfold toy_parse_payload, payload_cbor, cbor_array, cbor_uint. cbn [length N.of_nat concat].
  rewrite (parse_head_enc 4 3) by reflexivity. cbn [Pos.of_succ_nat Pos.succ].
  rewrite app_nil_r, (parse_bstr_enc rh _ H).
  destruct enc as [e|]; unfold attrs_cbor, cbor_map; cbn [length N.of_nat map concat fst snd option_map Pos.of_succ_nat].
  - rewrite app_nil_r. repeat rewrite <- app_assoc. rewrite (parse_head_enc 5 1) by reflexivity.
    unfold cbor_uint. rewrite (parse_head_enc 0 1) by reflexivity.
    assert (L2 : (length (cbor_bytes e) < 4096)%nat) by (pose proof (cbor_bytes_length e ltac:(lia)); lia).
    rewrite (parse_bstr_enc (cbor_bytes e) _ L2).
    rewrite <- (app_nil_r (cbor_head 0 ty)), (parse_head_enc 0 _ [] Ht). reflexivity.
  - rewrite (parse_head_enc 5 0) by reflexivity. cbn [app].
    rewrite <- (app_nil_r (cbor_head 0 ty)), (parse_head_enc 0 _ [] Ht). reflexivity.
Qed.

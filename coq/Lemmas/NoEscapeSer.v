(* C14 no-escape lemmas: extended-key deserialiser / FromExtendedKey / key-data containers, SLIP-32, WIF, BIP-38.
   Proved directly from the models, for ARBITRARY oracles (sha256, scrypt, AES, group operations, key validity):
   the IndexError sites of the models (ser[4], key_bytes[0], dec[0], k[-1], b[2]) are shown unreachable after the
   length checks that precede them, the OverflowError of int.to_bytes in the BIP-38 EC decrypter is unreachable
   because its argument is reduced modulo the group order.  The only hypotheses are about codecs that are
   parameters of the models: the Bech32 decoder (SLIP-32) and the UTF-8 encoder (BIP-38) stay in the family. *)
From Coq Require Import NArith ZArith Arith List Bool Lia.
From BU Require Import Base.Exn Base.Radix Base.Bytes Gen.SerbipConsts Model.Base58 Model.Bip32Data Model.Bip32Ser
                       Model.Slip32 Model.WifCodec Model.Bip38.
From BU Require Lemmas.ChunkMnemonic.
From BU Require Import Lemmas.NoEscape.
Import ListNotations.
Open Scope N_scope.

Lemma nth_error_in_range {A} (l : list A) i e : (i < length l)%nat -> in_family (of_option (nth_error l i) e) = true.
Proof. intros H. destruct (nth_error l i) eqn:E; [reflexivity|]. apply nth_error_None in E. lia. Qed.

(* ------------------------------------------------------------------ key-data containers *)
(* Bip32Depth / Bip32KeyIndex / Bip32KeyIndex.FromBytes / Bip32ChainCode / Bip32FingerPrint / Bip32KeyNetVersions *)
Lemma mk_depth_family d : in_family (mk_depth d) = true.
Proof. unfold mk_depth. fam. Qed.
Lemma mk_index_family i : in_family (mk_index i) = true.
Proof. unfold mk_index. fam. Qed.
Lemma index_from_bytes_family b : in_family (index_from_bytes b) = true.
Proof. apply mk_index_family. Qed.
Lemma mk_chain_code_family b : in_family (mk_chain_code b) = true.
Proof. unfold mk_chain_code. fam. Qed.
Lemma mk_fprint_family b : in_family (mk_fprint b) = true.
Proof. unfold mk_fprint. fam. Qed.
Lemma mk_key_net_ver_family pub priv : in_family (mk_key_net_ver pub priv) = true.
Proof. unfold mk_key_net_ver. fam. Qed.
Lemma mk_key_data_family d i cc fp : in_family (mk_key_data d i cc fp) = true.
Proof.
  unfold mk_key_data. fam; [apply mk_depth_family|apply mk_index_family|apply mk_chain_code_family|apply mk_fprint_family].
Qed.

(* ------------------------------------------------------------------ extended keys *)
Section Ser.
  Variable alph : list N.
  Variable radix : N.
  Variable cklen : nat.
  Variable sha256 : list N -> list N.
  Variable priv_ok : list N -> bool.
  Variable pub_parse : list N -> option (list N).

  Lemma get_parts_family ser is_public : (78 <= length ser)%nat -> in_family (get_parts ser is_public) = true.
  Proof.
    intros L. unfold get_parts.
    apply fam_bind; [apply nth_error_in_range; unfold depth_idx, bip32_ver_len; lia|]. intros depth _.
    apply fam_bind; [apply mk_depth_family|]. intros d _.
    apply fam_bind; [apply index_from_bytes_family|]. intros i _.
    apply fam_bind; [apply mk_chain_code_family|]. intros cc _.
    apply fam_bind; [apply mk_fprint_family|]. intros fp _.
    destruct is_public; [reflexivity|].
    apply fam_bind.
    - apply nth_error_in_range. rewrite skipn_length.
      unfold key_idx, chain_code_idx, key_index_idx, fprint_idx, depth_idx, bip32_ver_len, bip32_depth_len,
        bip32_fprint_len, bip32_index_len, bip32_chaincode_len. lia.
    - intros k0 _. fam.
  Qed.

  (* Bip32KeyDeserializer.DeserializeKey(str, key_net_ver) *)
  Lemma deserialize_family s v : in_family (deserialize alph radix cklen sha256 s v) = true.
  Proof.
    unfold deserialize. apply fam_bind; [apply b58_check_decode_family|]. intros ser _.
    apply fam_bind; [unfold get_if_public; fam|]. intros is_public _.
    destruct (is_public && negb (length ser =? bip32_ser_pub_len)%nat) eqn:C1; [reflexivity|].
    destruct (negb is_public && negb (nat_mem (length ser) bip32_ser_priv_lens)) eqn:C2; [reflexivity|].
    apply fam_bind; [|reflexivity].
    apply get_parts_family.
    destruct is_public; cbn [andb negb] in C1, C2.
    - apply negb_false_iff, Nat.eqb_eq in C1. rewrite C1. unfold bip32_ser_pub_len. lia.
    - apply negb_false_iff in C2. unfold bip32_ser_priv_lens in C2. cbn [nat_mem] in C2.
      apply orb_true_iff in C2. destruct C2 as [C|C]; [apply Nat.eqb_eq in C; lia|].
      apply orb_true_iff in C. destruct C as [C|C]; [apply Nat.eqb_eq in C; lia|discriminate].
  Qed.

  (* Bip32PrivateKey.FromBytes / Bip32PublicKey.FromBytes behind Bip32Base.FromPrivateKey / FromPublicKey *)
  Lemma construct_family is_public key_bytes kd : in_family (construct priv_ok pub_parse is_public key_bytes kd) = true.
  Proof. unfold construct. fam. Qed.

  (* Bip32Base.FromExtendedKey(str, key_net_ver) for every Bip32 class (the class enters through the two oracles) *)
  Lemma from_extended_family s v :
    in_family (from_extended alph radix cklen sha256 priv_ok pub_parse s v) = true.
  Proof.
    unfold from_extended. apply fam_bind; [apply deserialize_family|]. intros [[kb kd] p] _.
    fam; apply construct_family.
  Qed.

  (* ---------------------------------------------------------------- WIF *)
  Lemma secp_priv_valid_len k : secp_priv_valid k = true -> length k = 32%nat.
  Proof.
    unfold secp_priv_valid. intros H. apply andb_true_iff in H. destruct H as [H _].
    apply andb_true_iff in H. destruct H as [H _]. apply Nat.eqb_eq in H. exact H.
  Qed.

  (* WifDecoder.Decode(str, net_ver), any net_ver (one that is not a single byte is a ValueError since the
     repair of C14-WIF-NETVER) *)
  Lemma wif_decode_family s nvb : in_family (wif_decode alph radix cklen sha256 s nvb) = true.
  Proof.
    unfold wif_decode. destruct nvb as [|nv [|? ?]]; cbn [length Nat.eqb negb]; try reflexivity.
    apply fam_bind; [apply b58_check_decode_family|]. intros dec _.
    destruct (Nat.eqb_spec (length dec) 0) as [L0|L0]; [reflexivity|].
    apply fam_bind; [apply nth_error_in_range; lia|]. intros b0 _.
    cbn [ord1 bind Ok].
    destruct (negb (b0 =? nv)); [reflexivity|].
    destruct (secp_priv_valid (drop_last 1 (skipn 1 dec))) eqn:V.
    - apply fam_bind; [|intros; fam].
      apply nth_error_in_range. apply secp_priv_valid_len in V.
      assert (length (skipn 1 dec) <> 0)%nat; [|lia].
      intros Z. apply length_zero_iff_nil in Z. rewrite Z in V. unfold drop_last in V. simpl in V. discriminate.
    - fam.
  Qed.
End Ser.

(* ------------------------------------------------------------------ SLIP-32 (over an abstract Bech32 decoder) *)
Section Slip32.
  Variable bech_dec : list N -> list N -> res (list N).
  Hypothesis bech_dec_family : forall hrp s, in_family (bech_dec hrp s) = true.

  Lemma slip32_path_family ser : forall count start, in_family (slip32_path ser start count) = true.
  Proof.
    induction count as [|c IH]; intros start; cbn [slip32_path]; [reflexivity|].
    apply fam_bind; [apply index_from_bytes_family|]. intros i _.
    apply fam_bind; [apply IH|]. reflexivity.
  Qed.

  Lemma slip32_parts_family ser is_public : in_family (slip32_parts ser is_public) = true.
  Proof.
    unfold slip32_parts. fam; try apply slip32_path_family; try apply mk_chain_code_family.
  Qed.

  (* Slip32KeyDeserializer.DeserializeKey(str, key_net_ver) *)
  Lemma slip32_deserialize_family s v : in_family (slip32_deserialize bech_dec s v) = true.
  Proof.
    unfold slip32_deserialize. apply fam_bind; [unfold slip32_get_if_public; fam|]. intros p _.
    apply fam_bind; [apply bech_dec_family|]. intros ser _.
    apply fam_bind; [apply slip32_parts_family|]. reflexivity.
  Qed.
End Slip32.

(* ------------------------------------------------------------------ BIP-38 *)
Section Bip38.
  Variable alph : list N.
  Variable radix : N.
  Variable cklen : nat.
  Variable sha256 nfc : list N -> list N.
  Variable utf8 : list N -> res (list N).
  Variable scrypt : list N -> list N -> N -> N -> N -> N -> list N.
  Variable aes_enc aes_dec : list N -> list N -> list N.
  Variable G : Type.
  Variable base : G.
  Variable smul : N -> G -> G.
  Variable ser_c : G -> list N.
  Variable deser : list N -> option G.
  Variable p2pkh : G -> bool -> list N.
  (* str.encode("utf-8") of the NFC-normalised passphrase raises at most UnicodeEncodeError *)
  Hypothesis utf8_family : forall t, in_family (utf8 t) = true.

  Lemma point_mul_family k (P : G) : in_family (point_mul G smul k P) = true.
  Proof. unfold point_mul. fam. Qed.
  Lemma pub_of_priv_family k : in_family (pub_of_priv G base smul k) = true.
  Proof. unfold pub_of_priv. fam. Qed.
  Lemma noec_halves_family pass ah : in_family (noec_halves nfc utf8 scrypt pass ah) = true.
  Proof. unfold noec_halves. fam. apply utf8_family. Qed.
  Lemma pass_factor_family pass oe l : in_family (pass_factor sha256 nfc utf8 scrypt pass oe l) = true.
  Proof. unfold pass_factor. fam. apply utf8_family. Qed.
  Lemma pass_point_family pf : in_family (pass_point G base smul ser_c pf) = true.
  Proof. unfold pass_point. fam. apply point_mul_family. Qed.
  Lemma ec_flag_options_family f : in_family (ec_flag_options f) = true.
  Proof. unfold ec_flag_options. fam. Qed.

  (* Bip38Decrypter.DecryptNoEc(str, passphrase) *)
  Lemma noec_decrypt_family enc pass :
    in_family (noec_decrypt alph radix cklen sha256 nfc utf8 scrypt aes_dec G base smul p2pkh enc pass) = true.
  Proof.
    unfold noec_decrypt. apply fam_bind; [apply b58_check_decode_family|]. intros b _.
    destruct (Nat.eqb_spec (length b) bip38_noec_enc_len) as [L|L]; cbn [negb]; [|reflexivity].
    apply fam_bind.
    { apply nth_error_in_range. rewrite L. vm_compute. lia. }
    intros flag _.
    destruct (negb (list_eqb _ _)); [reflexivity|].
    destruct (negb (_ || _)); [reflexivity|].
    apply fam_bind; [apply noec_halves_family|]. intros [dh1 dh2] _.
    apply fam_bind; [apply pub_of_priv_family|]. intros P _. fam.
  Qed.

  (* Bip38Decrypter.DecryptEc(str, passphrase) *)
  Lemma ec_decrypt_family enc pass :
    in_family (ec_decrypt alph radix cklen sha256 nfc utf8 scrypt aes_dec G base smul ser_c p2pkh enc pass) = true.
  Proof.
    unfold ec_decrypt. apply fam_bind; [apply b58_check_decode_family|]. intros b _.
    destruct (Nat.eqb_spec (length b) bip38_ec_enc_len) as [L|L]; cbn [negb]; [|reflexivity].
    apply fam_bind.
    { apply nth_error_in_range. rewrite L. vm_compute. lia. }
    intros flag _.
    destruct (negb (list_eqb _ _)); [reflexivity|].
    apply fam_bind; [apply ec_flag_options_family|]. intros [compressed has_lot_seq] _.
    apply fam_bind; [apply pass_factor_family|]. intros pf _.
    apply fam_bind; [apply pass_point_family|]. intros pp _.
    destruct (ec_halves scrypt pp _ _) as [dh1 dh2].
    apply fam_bind.
    { (* int.to_bytes(32) of a value reduced mod n: no OverflowError *)
      unfold int_to_be_fixed. apply fam_rmap. unfold int_to_le_fixed.
      match goal with |- context [to_le 256 ?v] => set (x := v) end.
      assert (Hx : x < 256 ^ N.of_nat ecdsa_priv_len).
      { eapply N.lt_trans; [apply N.mod_lt; discriminate|]. vm_compute. reflexivity. }
      apply (proj2 (Lemmas.ChunkMnemonic.gbn_le ecdsa_priv_len x ltac:(unfold ecdsa_priv_len; lia))) in Hx.
      unfold get_bytes_number in Hx.
      destruct (Nat.leb_spec (length (to_le 256 x)) ecdsa_priv_len); [reflexivity|lia]. }
    intros key _.
    apply fam_bind; [apply pub_of_priv_family|]. intros P _. fam.
  Qed.

  (* Bip38EcKeysGenerator.GeneratePrivateKey(intermediate passphrase str, mode) -- seedb is the random draw *)
  Lemma gen_private_key_family ip c seedb :
    in_family (gen_private_key alph radix cklen sha256 scrypt aes_enc G smul ser_c deser p2pkh ip c seedb) = true.
  Proof.
    unfold gen_private_key. apply fam_bind; [apply b58_check_decode_family|]. intros b _.
    destruct (negb (length b =? bip38_ec_intpass_len)%nat); [reflexivity|].
    apply fam_bind; [apply fam_of_option; reflexivity|]. intros pp _.
    destruct (negb (_ || _)); [reflexivity|].
    apply fam_bind; [apply point_mul_family|]. intros Q _.
    destruct (ec_halves scrypt _ _ _) as [dh1 dh2]. reflexivity.
  Qed.
End Bip38.


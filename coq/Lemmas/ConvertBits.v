(* Proofs about Model/ConvertBits.v: the accumulator loop computes the positional regrouping. *)
From Coq Require Import NArith Arith List Lia Bool.
From BU Require Import Base.Exn Base.Radix Base.Bytes Model.ConvertBits Lemmas.CodecsAux.
Import ListNotations.
Open Scope N_scope.

(* ---- shifts and masks as arithmetic ---- *)
Lemma land_mask x k : N.land x (N.shiftl 1 k - 1) = x mod 2 ^ k.
Proof. rewrite N.shiftl_1_l, N.sub_1_r, <- N.ones_equiv. apply N.land_ones. Qed.

Lemma lor_shift_add a n v : v < 2 ^ n -> N.lor (N.shiftl a n) v = a * 2 ^ n + v.
Proof.
  intros H. rewrite <- N.shiftl_mul_pow2.
  assert (Z : N.land (N.shiftl a n) v = 0).
  { apply N.bits_inj_0. intros m. rewrite N.land_spec.
    destruct (N.lt_ge_cases m n) as [L|G].
    - rewrite N.shiftl_spec_low by exact L. reflexivity.
    - rewrite <- (N.mod_small v (2 ^ n)) by exact H. rewrite N.mod_pow2_bits_high by exact G.
      apply andb_false_r. }
  rewrite (N.add_nocarry_lxor _ _ Z). symmetry. apply N.lxor_lor. exact Z.
Qed.

Lemma mod_mod_pow x m M : m <= M -> (x mod 2 ^ M) mod 2 ^ m = x mod 2 ^ m.
Proof.
  intros H. replace M with (m + (M - m)) by lia. rewrite N.pow_add_r.
  rewrite N.mod_mul_r by (apply N.pow_nonzero; discriminate).
  rewrite (N.mul_comm (2 ^ m)), N.mod_add by (apply N.pow_nonzero; discriminate).
  apply N.mod_mod. apply N.pow_nonzero; discriminate.
Qed.

(* a mod 2^(k+t) = a mod 2^k + 2^k * ((a / 2^k) mod 2^t) *)
Lemma mod_split a k t : a mod 2 ^ (k + t) = a mod 2 ^ k + 2 ^ k * ((a / 2 ^ k) mod 2 ^ t).
Proof. rewrite N.pow_add_r. apply N.mod_mul_r; apply N.pow_nonzero; discriminate. Qed.

Section Proofs.
  Variables fb tb : N.
  Hypothesis fb_pos : 0 < fb.
  Hypothesis tb_pos : 0 < tb.

  Notation A := (2 ^ fb).
  Notation B := (2 ^ tb).
  Notation emit := (emit tb).
  Notation loop := (loop fb tb).
  Notation convert_bits := (convert_bits fb tb).

  (* value represented by a loop state: emitted digits (most recent first) and the pending bits *)
  Definition W (rret : list N) (acc bits : N) : N := from_le B rret * 2 ^ bits + acc mod 2 ^ bits.

  Lemma W_init : W [] 0 0 = 0.
  Proof. unfold W. cbn [from_le]. rewrite N.pow_0_r, N.mod_1_r. reflexivity. Qed.

  Lemma A_ge2 : 2 <= A.
  Proof. replace fb with (N.succ (fb - 1)) by lia. rewrite N.pow_succ_r'. pose proof (pow2_pos (fb - 1)). lia. Qed.
  Lemma B_ge2 : 2 <= B.
  Proof. replace tb with (N.succ (tb - 1)) by lia. rewrite N.pow_succ_r'. pose proof (pow2_pos (tb - 1)). lia. Qed.

  Lemma emit_spec fuel : forall acc bits rret, (N.to_nat bits < fuel)%nat -> digits_ok B rret ->
    exists bits' rret', emit fuel acc bits rret = Some (bits', rret') /\ bits' < tb /\
      W rret' acc bits' = W rret acc bits /\ digits_ok B rret' /\
      tb * N.of_nat (length rret') + bits' = tb * N.of_nat (length rret) + bits.
  Proof.
    induction fuel as [|f IH]; intros acc bits rret Hf Hr; [lia|].
    cbn [ConvertBits.emit]. destruct (N.ltb_spec bits tb) as [Hlt|Hge].
    - exists bits, rret. auto.
    - set (d := N.land (N.shiftr acc (bits - tb)) (max_out_val tb)).
      assert (Ed : d = (acc / 2 ^ (bits - tb)) mod B).
      { unfold d, max_out_val. rewrite land_mask, N.shiftr_div_pow2. reflexivity. }
      assert (Hd : d < B) by (rewrite Ed; apply N.mod_lt, N.pow_nonzero; discriminate).
      destruct (IH acc (bits - tb) (d :: rret) ltac:(lia) ltac:(constructor; auto))
        as (b' & r' & E & Hb & HW & Hr' & Hl).
      exists b', r'. split; [exact E|]. split; [exact Hb|]. split; [|split; [exact Hr'|]].
      + rewrite HW. unfold W. cbn [from_le].
        replace bits with ((bits - tb) + tb) at 3 4 by lia.
        rewrite mod_split, N.pow_add_r, <- Ed. lia.
      + rewrite Hl. cbn [length]. lia.
  Qed.

  Lemma step_acc acc bits v : bits < tb -> v < A ->
    (N.land (N.lor (N.shiftl acc fb) v) (max_acc fb tb)) mod 2 ^ (bits + fb) = (acc mod 2 ^ bits) * A + v.
  Proof.
    intros Hb Hv. unfold max_acc. rewrite land_mask, lor_shift_add by exact Hv.
    rewrite mod_mod_pow by lia.
    rewrite (N.add_comm bits fb), mod_split.
    assert (An0 : A <> 0) by (apply N.pow_nonzero; discriminate).
    assert (E1 : (acc * A + v) mod A = v).
    { rewrite N.add_comm, N.mod_add by exact An0. apply N.mod_small; exact Hv. }
    assert (E2 : (acc * A + v) / A = acc).
    { rewrite N.div_add_l by exact An0. rewrite (N.div_small v A) by exact Hv. lia. }
    rewrite E1, E2. lia.
  Qed.

  Lemma loop_spec data : forall acc bits rret, digits_ok A data -> bits < tb -> digits_ok B rret ->
    exists acc' bits' rret', loop data acc bits rret = Ok (Some (acc', bits', rret')) /\ bits' < tb /\
      W rret' acc' bits' = W rret acc bits * A ^ N.of_nat (length data) + from_be A data /\
      digits_ok B rret' /\
      tb * N.of_nat (length rret') + bits' = tb * N.of_nat (length rret) + bits + fb * N.of_nat (length data).
  Proof.
    induction data as [|v t IH]; intros acc bits rret Hd Hb Hr.
    - exists acc, bits, rret. split; [reflexivity|]. split; [exact Hb|]. split; [|split; [exact Hr|]].
      + unfold from_be. simpl. lia.
      + simpl. lia.
    - assert (Hv : v < A) by (inversion Hd; auto). assert (Ht : digits_ok A t) by (inversion Hd; auto).
      cbn [ConvertBits.loop]. rewrite N.shiftr_div_pow2, (N.div_small v A) by exact Hv. cbn [N.eqb negb].
      set (acc1 := N.land (N.lor (N.shiftl acc fb) v) (max_acc fb tb)).
      destruct (emit_spec (S (N.to_nat (bits + fb))) acc1 (bits + fb) rret ltac:(lia) Hr)
        as (b2 & r2 & E & Hb2 & HW & Hr2 & Hl2).
      rewrite E.
      destruct (IH acc1 b2 r2 Ht Hb2 Hr2) as (a' & b' & r' & E' & Hb' & HW' & Hr' & Hl').
      exists a', b', r'. split; [exact E'|]. split; [exact Hb'|]. split; [|split; [exact Hr'|]].
      + rewrite HW', HW. unfold W at 1. unfold acc1. rewrite step_acc by assumption.
        rewrite from_be_cons. cbn [length]. rewrite Nnat.Nat2N.inj_succ, N.pow_succ_r'.
        unfold W. rewrite N.pow_add_r. lia.
      + rewrite Hl', Hl2. cbn [length]. lia.
  Qed.

  (* a value that does not fit from_bits makes ConvertBits return None *)
  Lemma loop_range data : forall acc bits rret, bits < tb -> digits_ok B rret ->
    Exists (fun v => A <= v) data -> loop data acc bits rret = Ok None.
  Proof.
    induction data as [|v t IH]; intros acc bits rret Hb Hr Hex; [inversion Hex|].
    cbn [ConvertBits.loop]. rewrite N.shiftr_div_pow2.
    destruct (N.lt_ge_cases v A) as [Hv|Hv].
    - rewrite (N.div_small v A) by exact Hv. cbn [N.eqb negb].
      set (acc1 := N.land (N.lor (N.shiftl acc fb) v) (max_acc fb tb)).
      destruct (emit_spec (S (N.to_nat (bits + fb))) acc1 (bits + fb) rret ltac:(lia) Hr)
        as (b2 & r2 & E & Hb2 & _ & Hr2 & _).
      rewrite E. apply IH; auto. inversion Hex; subst; [lia|assumption].
    - assert (v / A <> 0).
      { intro Z. apply N.div_small_iff in Z; [lia|apply N.pow_nonzero; discriminate]. }
      destruct (N.eqb_spec (v / A) 0); [contradiction|reflexivity].
  Qed.

  Lemma last_val acc bits : bits < tb ->
    N.land (N.shiftl acc (tb - bits)) (max_out_val tb) = (acc mod 2 ^ bits) * 2 ^ (tb - bits).
  Proof.
    intros H. unfold max_out_val. rewrite land_mask, N.shiftl_mul_pow2.
    replace tb with (bits + (tb - bits)) at 2 by lia. rewrite N.pow_add_r.
    apply N.mul_mod_distr_r; apply N.pow_nonzero; discriminate.
  Qed.

  (* pad = True: the output digits spell the input value shifted left by p < to_bits zero bits *)
  Theorem convert_pad_spec data : digits_ok A data ->
    exists l p, convert_bits data true = Ok (Some l) /\ digits_ok B l /\ p < tb /\
      tb * N.of_nat (length l) = fb * N.of_nat (length data) + p /\
      from_be B l = from_be A data * 2 ^ p.
  Proof.
    intros Hd.
    destruct (loop_spec data 0 0 [] Hd tb_pos ltac:(constructor)) as (acc & bits & rret & E & Hb & HW & Hr & Hl).
    unfold ConvertBits.convert_bits. rewrite E. cbn [bind Ok].
    rewrite W_init, N.mul_0_l, N.add_0_l in HW. unfold W in HW. cbn [length] in Hl.
    destruct (N.eqb_spec bits 0) as [->|Hnz].
    - exists (rev rret), 0. split; [reflexivity|]. split; [apply digits_ok_rev; exact Hr|].
      split; [exact tb_pos|]. rewrite rev_length. split; [lia|].
      unfold from_be in *. rewrite rev_involutive. rewrite N.pow_0_r, N.mod_1_r in HW. rewrite N.pow_0_r. lia.
    - exists (rev (N.land (N.shiftl acc (tb - bits)) (max_out_val tb) :: rret)), (tb - bits).
      split; [reflexivity|]. rewrite (last_val _ _ Hb).
      assert (Pl : acc mod 2 ^ bits < 2 ^ bits) by (apply N.mod_lt, N.pow_nonzero; discriminate).
      assert (Hlast : (acc mod 2 ^ bits) * 2 ^ (tb - bits) < B).
      { replace tb with (bits + (tb - bits)) at 2 by lia. rewrite N.pow_add_r.
        apply N.mul_lt_mono_pos_r; [apply pow2_pos|exact Pl]. }
      split; [apply digits_ok_rev; constructor; assumption|].
      split; [lia|]. rewrite rev_length. cbn [length]. split; [lia|].
      unfold from_be in *. rewrite rev_involutive. cbn [from_le].
      rewrite <- HW. replace tb with (bits + (tb - bits)) at 2 by lia. rewrite N.pow_add_r. lia.
  Qed.

  (* pad = False: quotient digits are returned iff fewer than from_bits bits are left over and they are zero *)
  Theorem convert_strict_spec data : digits_ok A data ->
    exists l bits pend, bits < tb /\ pend < 2 ^ bits /\ digits_ok B l /\
      tb * N.of_nat (length l) + bits = fb * N.of_nat (length data) /\
      from_be B l * 2 ^ bits + pend = from_be A data /\
      convert_bits data false = Ok (if (fb <=? bits) || negb (pend =? 0) then None else Some l).
  Proof.
    intros Hd.
    destruct (loop_spec data 0 0 [] Hd tb_pos ltac:(constructor)) as (acc & bits & rret & E & Hb & HW & Hr & Hl).
    rewrite W_init, N.mul_0_l, N.add_0_l in HW. unfold W in HW. cbn [length] in Hl.
    exists (rev rret), bits, (acc mod 2 ^ bits).
    split; [exact Hb|]. split; [apply N.mod_lt, N.pow_nonzero; discriminate|].
    split; [apply digits_ok_rev; exact Hr|]. rewrite rev_length. split; [lia|].
    unfold from_be in *. rewrite rev_involutive. split; [exact HW|].
    unfold ConvertBits.convert_bits. rewrite E. cbn [bind Ok]. rewrite (last_val _ _ Hb).
    assert (Z : ((acc mod 2 ^ bits) * 2 ^ (tb - bits) =? 0) = (acc mod 2 ^ bits =? 0)).
    { pose proof (pow2_pos (tb - bits)).
      destruct (N.eqb_spec (acc mod 2 ^ bits) 0) as [->|Hn]; [reflexivity|].
      apply N.eqb_neq. nia. }
    rewrite Z. destruct ((fb <=? bits) || negb (acc mod 2 ^ bits =? 0)); reflexivity.
  Qed.

  (* the loop without final checks (used by the Base32 model): the complete groups *)
  Theorem convert_floor_spec data : digits_ok A data ->
    exists l bits pend, bits < tb /\ pend < 2 ^ bits /\ digits_ok B l /\
      tb * N.of_nat (length l) + bits = fb * N.of_nat (length data) /\
      from_be B l * 2 ^ bits + pend = from_be A data /\
      convert_floor fb tb data = Ok (Some l).
  Proof.
    intros Hd.
    destruct (loop_spec data 0 0 [] Hd tb_pos ltac:(constructor)) as (acc & bits & rret & E & Hb & HW & Hr & Hl).
    rewrite W_init, N.mul_0_l, N.add_0_l in HW. unfold W in HW. cbn [length] in Hl.
    exists (rev rret), bits, (acc mod 2 ^ bits).
    split; [exact Hb|]. split; [apply N.mod_lt, N.pow_nonzero; discriminate|].
    split; [apply digits_ok_rev; exact Hr|]. rewrite rev_length. split; [lia|].
    unfold from_be in *. rewrite rev_involutive. split; [exact HW|].
    unfold ConvertBits.convert_floor. rewrite E. reflexivity.
  Qed.

  Theorem convert_floor_range data : Exists (fun v => A <= v) data -> convert_floor fb tb data = Ok None.
  Proof.
    intros H. unfold ConvertBits.convert_floor.
    rewrite (loop_range data 0 0 [] tb_pos ltac:(constructor) H). reflexivity.
  Qed.

  Theorem convert_range data pad : Exists (fun v => A <= v) data -> convert_bits data pad = Ok None.
  Proof.
    intros H. unfold ConvertBits.convert_bits.
    rewrite (loop_range data 0 0 [] tb_pos ltac:(constructor) H). reflexivity.
  Qed.

  Lemma range_dec data : digits_ok A data \/ Exists (fun v => A <= v) data.
  Proof.
    induction data as [|v t [IH|IH]].
    - left; constructor.
    - destruct (N.lt_ge_cases v A); [left; constructor; auto|right; constructor; auto].
    - right. apply Exists_cons_tl. exact IH.
  Qed.
End Proofs.

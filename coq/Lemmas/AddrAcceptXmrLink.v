(* The Monero address decoder accepts exactly the address encoder's outputs -- unconditional form of
   Lemmas/AddrAcceptXmr.v [decode_addr_accepts_iff_encoder]: its canonicity hypothesis on the block-Base58 decoder of
   Model/XmrB58.v is the contributor link's theorem Lemmas/LinkXmr.v [b58x_encode_decode] (XmrB58 = Base58Xmr
   extensionally, canonicity transported from the C11 codec theorems). *)
From Coq Require Import NArith List.
From BU Require Import Base.Exn Base.Bytes Gen.ConstsCardmon Model.EdLib Model.AddrXmr.
From BU Require Lemmas.LinkXmr Lemmas.AddrAcceptXmr.
Import ListNotations.

Section Linked.
  Variable keccak : list N -> list N.
  Variable G : Type.
  Variable pdec : list N -> option G.
  Hypothesis keccak_len : forall x, length (keccak x) = 32%nat.
  Hypothesis keccak_ok : forall x, bytes_ok (keccak x).

  Theorem decode_addr_accepts_iff_encoder s net payid out : bytes_ok net ->
    (match payid with Some p => bytes_ok p | None => True end) ->
    (decode_addr keccak G pdec s net payid = Ok out <->
     exists ps pv, out = ps ++ pv /\ length ps = 32%nat /\ length pv = 32%nat /\ bytes_ok ps /\ bytes_ok pv /\
                   pub_is_valid G pdec ps = true /\ pub_is_valid G pdec pv = true /\
                   encode_key keccak G pdec ps pv net payid = Ok s).
  Proof.
    exact (Lemmas.AddrAcceptXmr.decode_addr_accepts_iff_encoder keccak G pdec keccak_len keccak_ok
             Lemmas.LinkXmr.b58x_encode_decode s net payid out).
  Qed.
End Linked.

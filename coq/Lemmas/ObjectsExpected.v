(* Maintainer-set constants for the C15 obligations over Gen/Objects.v.

   [expected_offenders]: the (cached method, mutable field) pairs by which
   [caches_over_immutable] fails on the current tree.  Props/C15.v proves
   [offenders = expected_offenders] by computation on the regenerated object table, so
     - a NEW @lru_cache over mutable state, or a new mutator of a field some cache reads, breaks
       that theorem (the computed list grows);
     - when the fixes land (fixes/F6.diff, fixes/F14.diff) the computed list shrinks and the theorem
       breaks the other way: set this constant to [] -- Props/C15.v then states the full theorem
       [caches_over_immutable] (its premise [expected_offenders = []] holds by reflexivity).

   F6: cached accessors that read Bip32Base.m_priv_key, which ConvertToPublic() clears:
       Bip44Base.PrivateKey, CardanoShelley.PrivateKeys, and -- found by the generated analysis, not
       listed in DESIGN.md -- the cached private derivations of ElectrumV2Standard/Segwit and
       CardanoByronLegacy (__DeriveKey, and GetAddress through it).
   F14: Bip44PublicKey.ToAddress reads the Bitcoin-Cash / Litecoin address toggles. *)
From Coq Require Import List String.
Import ListNotations.
Open Scope string_scope.

Definition expected_offenders : list (string * string) := [].
(* F6 and F14 were repaired in /repo (three fix: commits dropping the caches); the former entries were
   Bip44Base.PrivateKey, CardanoShelley.PrivateKeys, ElectrumV2{Standard,Segwit}.{GetAddress,__DeriveKey},
   CardanoByronLegacy.{GetAddress,__DeriveKey} over Bip32Base.m_priv_key, and Bip44PublicKey.ToAddress over the
   BCH/LTC toggles. *)

(* Operations that derive / build objects from an existing one: none may write a field of an
   existing object (lazy initialisers apart).  Each must exist in the generated method table. *)
Definition derivation_methods : list string := [
  "Bip32Base.ChildKey"; "Bip32Base.DerivePath";
  "Bip44Base._PurposeGeneric"; "Bip44Base._CoinGeneric"; "Bip44Base._AccountGeneric";
  "Bip44Base._ChangeGeneric"; "Bip44Base._AddressIndexGeneric"; "Bip44Base.DeriveDefaultPath";
  "Bip44.Purpose"; "Bip44.Coin"; "Bip44.Account"; "Bip44.Change"; "Bip44.AddressIndex";
  "Bip49.Purpose"; "Bip49.Coin"; "Bip49.Account"; "Bip49.Change"; "Bip49.AddressIndex";
  "Bip84.Purpose"; "Bip84.Coin"; "Bip84.Account"; "Bip84.Change"; "Bip84.AddressIndex";
  "Bip86.Purpose"; "Bip86.Coin"; "Bip86.Account"; "Bip86.Change"; "Bip86.AddressIndex";
  "Cip1852.Purpose"; "Cip1852.Coin"; "Cip1852.Account"; "Cip1852.Change"; "Cip1852.AddressIndex";
  "Bip44Base.PublicKey"; "Bip44Base.PrivateKey";
  "Substrate.ChildKey"; "Substrate.DerivePath";
  "Monero.Subaddress"; "Monero.PrimaryAddress"; "Monero.IntegratedAddress";
  "CardanoShelley.Change"; "CardanoShelley.AddressIndex";
  "CardanoByronLegacy.GetPrivateKey"; "CardanoByronLegacy.GetPublicKey"; "CardanoByronLegacy.GetAddress";
  "ElectrumV1.GetPrivateKey"; "ElectrumV1.GetPublicKey"; "ElectrumV1.GetAddress";
  "ElectrumV2Standard.GetPrivateKey"; "ElectrumV2Standard.GetPublicKey"; "ElectrumV2Standard.GetAddress";
  "ElectrumV2Segwit.GetPrivateKey"; "ElectrumV2Segwit.GetPublicKey"; "ElectrumV2Segwit.GetAddress"
].

(* the mutators the library is known to have; a new one changes [mutable_fields] and has to be
   looked at (it may invalidate a cache) *)
Definition expected_mutable_fields : list string := [
  "AesEcbDecrypter.auto_unpad"; "AesEcbEncrypter.auto_pad"; "Bip32Base.m_priv_key";
  "BipBitcoinCashConf.m_use_legacy_addr"; "BipLitecoinConf.m_use_alt_key_net_ver";
  "BipLitecoinConf.m_use_depr_addr"; "Sha256.handle"; "Substrate.m_priv_key"
].

(* functions known to mutate a parameter in place; every call site must hand them a newly created
   object (checked on the generated call-site table) *)
Definition expected_param_mutators : list (string * string) := [
  ("Bech32EncoderBase._EncodeBech32", "data")
].

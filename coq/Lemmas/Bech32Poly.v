(* The Bech32 / CashAddr PolyMod as a GF(2)-linear map: linearity, state bound, the checksum digits
   (verify o compute, uniqueness of the checksum), injectivity of multiplication by x.
   Generic in the generator list and the state width; instantiated in Lemmas/Bech32Code.v. *)
From Coq Require Import NArith Arith List Lia Bool.
From BU Require Import Base.Exn Base.Bytes Model.Bech32 Lemmas.Bech32Bits.
Import ListNotations.
Open Scope N_scope.

(* ---- bit-level helpers *)
Lemma lt_pow2_bits x n : x < 2 ^ n <-> (forall i, n <= i -> N.testbit x i = false).
Proof.
  split; [intros H i Hi; eapply high_bits_zero; eauto|].
  intros H. assert (E : x = x mod 2 ^ n).
  { apply N.bits_inj. intro i. destruct (N.lt_ge_cases i n) as [Hi|Hi].
    - rewrite N.mod_pow2_bits_low by assumption. reflexivity.
    - rewrite N.mod_pow2_bits_high by assumption. auto. }
  rewrite E. apply N.mod_lt, N.pow_nonzero. discriminate.
Qed.

Lemma lxor_lt a b n : a < 2 ^ n -> b < 2 ^ n -> N.lxor a b < 2 ^ n.
Proof.
  rewrite !lt_pow2_bits. intros Ha Hb i Hi. rewrite N.lxor_spec, Ha, Hb by assumption. reflexivity.
Qed.

Lemma lt_pow2_mono x n m : x < 2 ^ n -> n <= m -> x < 2 ^ m.
Proof. intros H L. eapply N.lt_le_trans; [exact H|]. apply N.pow_le_mono_r; lia. Qed.

Lemma shiftl_lt x n k : x < 2 ^ n -> N.shiftl x k < 2 ^ (n + k).
Proof.
  intros H. rewrite N.shiftl_mul_pow2, N.pow_add_r. apply N.mul_lt_mono_pos_r; [|assumption].
  apply N.neq_0_lt_0, N.pow_nonzero. discriminate.
Qed.

Lemma shiftr_lt x n k : x < 2 ^ (n + k) -> N.shiftr x k < 2 ^ n.
Proof.
  intros H. rewrite N.shiftr_div_pow2. apply N.div_lt_upper_bound; [apply N.pow_nonzero; discriminate|].
  rewrite <- N.pow_add_r, N.add_comm. assumption.
Qed.

Lemma shiftr_small x n : x < 2 ^ n -> N.shiftr x n = 0.
Proof. apply shiftr_eq0_lt. Qed.

Lemma land_ones_small x n : x < 2 ^ n -> N.land x (N.ones n) = x.
Proof. intros H. rewrite N.land_ones. apply N.mod_small. assumption. Qed.

Lemma split_low_high y k : N.lxor (N.shiftl (N.shiftr y k) k) (N.land y (N.ones k)) = y.
Proof.
  apply N.bits_inj. intro i. rewrite N.lxor_spec, N.land_spec.
  destruct (N.lt_ge_cases i k) as [Hi|Hi].
  - rewrite N.shiftl_spec_low, N.ones_spec_low by assumption. destruct (N.testbit y i); reflexivity.
  - rewrite N.shiftl_spec_high', N.shiftr_spec', N.ones_spec_high by assumption.
    rewrite andb_false_r, xorb_false_r. f_equal. lia.
Qed.

Definition sel (b : bool) (g : N) : N := if b then g else 0.

Lemma sel_xorb a b g : sel (xorb a b) g = N.lxor (sel a g) (sel b g).
Proof. destruct a, b; cbn [sel xorb]; now rewrite ?N.lxor_nilpotent, ?N.lxor_0_r, ?N.lxor_0_l. Qed.

Lemma lxor_swap a b c d : N.lxor (N.lxor a b) (N.lxor c d) = N.lxor (N.lxor a c) (N.lxor b d).
Proof. rewrite !N.lxor_assoc. f_equal. rewrite <- !N.lxor_assoc. f_equal. apply N.lxor_comm. Qed.

Lemma land_lxor_l a b m : N.land (N.lxor a b) m = N.lxor (N.land a m) (N.land b m).
Proof.
  apply N.bits_inj; intro i. rewrite !N.land_spec, !N.lxor_spec, !N.land_spec.
  destruct (N.testbit a i), (N.testbit b i), (N.testbit m i); reflexivity.
Qed.

(* symbol-wise xor of two words *)
Fixpoint xorl (a b : list N) : list N :=
  match a, b with
  | x :: a', y :: b' => N.lxor x y :: xorl a' b'
  | _, _ => []
  end.

Lemma xorl_length a : forall b, length a = length b -> length (xorl a b) = length a.
Proof. induction a; destruct b; simpl; intros; try discriminate; auto. Qed.

Lemma xorl_zeros_l k : forall l, length l = k -> xorl (repeat 0 k) l = l.
Proof. induction k; destruct l; simpl; intros; try discriminate; auto. rewrite IHk by lia. reflexivity. Qed.

Lemma xorl_small n a : forall b, Forall (fun x => x < 2 ^ n) a -> Forall (fun x => x < 2 ^ n) b ->
  Forall (fun x => x < 2 ^ n) (xorl a b).
Proof.
  induction a; destruct b; simpl; intros Ha Hb; try constructor.
  - inversion Ha; inversion Hb; subst. apply lxor_lt; assumption.
  - inversion Ha; inversion Hb; subst. auto.
Qed.

Lemma xorl_all_zero a : forall b, length a = length b -> Forall (fun x => x = 0) (xorl a b) -> a = b.
Proof.
  induction a; destruct b; simpl; intros L H; try discriminate; [reflexivity|].
  inversion H; subst. f_equal; [apply N.lxor_eq; assumption|apply IHa; auto].
Qed.

Section Poly.
  Variable gens : list (N * N).
  Variables shift sb : N.
  Notation W := (shift + sb).
  Notation step := (pm_step gens shift (N.ones shift) sb).
  Notation pm := (pm_from gens shift (N.ones shift) sb).

  Fixpoint gs (g : list (N * N)) (t : N) : N :=
    match g with
    | [] => 0
    | x :: r => N.lxor (sel (N.testbit t (fst x)) (snd x)) (gs r t)
    end.

  Lemma fold_gs g t : forall c,
    fold_left (fun c x => if N.testbit t (fst x) then N.lxor c (snd x) else c) g c = N.lxor c (gs g t).
  Proof.
    induction g as [|x r IH]; intros c; cbn [fold_left gs]; [rewrite N.lxor_0_r; reflexivity|].
    rewrite IH. destruct (N.testbit t (fst x)); cbn [sel].
    - rewrite N.lxor_assoc. reflexivity.
    - rewrite N.lxor_0_l. reflexivity.
  Qed.

  Lemma step_eq c v :
    step c v = N.lxor (N.lxor (N.shiftl (N.land c (N.ones shift)) sb) v) (gs gens (N.shiftr c shift)).
  Proof. unfold pm_step. apply fold_gs. Qed.

  Lemma gs_lin g t u : gs g (N.lxor t u) = N.lxor (gs g t) (gs g u).
  Proof.
    induction g as [|x r IH]; cbn [gs]; [reflexivity|].
    rewrite N.lxor_spec, sel_xorb, IH. apply lxor_swap.
  Qed.

  Lemma gs_0 g : gs g 0 = 0.
  Proof. induction g as [|x r IH]; cbn [gs]; [reflexivity|]. rewrite N.bits_0, IH. reflexivity. Qed.

  Theorem step_linear c1 c2 v1 v2 :
    step (N.lxor c1 c2) (N.lxor v1 v2) = N.lxor (step c1 v1) (step c2 v2).
  Proof.
    rewrite !step_eq. rewrite N.shiftr_lxor, gs_lin, land_lxor_l, N.shiftl_lxor.
    rewrite (lxor_swap (N.shiftl _ _) (N.shiftl _ _)). apply lxor_swap.
  Qed.

  Lemma step_0_0 : step 0 0 = 0.
  Proof. rewrite step_eq. rewrite N.land_0_l, N.shiftl_0_l, N.shiftr_0_l, gs_0. reflexivity. Qed.

  Lemma pm_app c a b : pm c (a ++ b) = pm (pm c a) b.
  Proof. unfold pm_from. apply fold_left_app. Qed.

  Theorem pm_linear l1 : forall l2 c1 c2, length l1 = length l2 ->
    pm (N.lxor c1 c2) (xorl l1 l2) = N.lxor (pm c1 l1) (pm c2 l2).
  Proof.
    induction l1 as [|x l1 IH]; destruct l2 as [|y l2]; intros c1 c2 L; try discriminate; [reflexivity|].
    cbn [xorl]. unfold pm_from. cbn [fold_left]. rewrite step_linear. apply IH. simpl in L. lia.
  Qed.

  Lemma pm_zeros k : pm 0 (repeat 0 k) = 0.
  Proof. induction k; [reflexivity|]. unfold pm_from in *. cbn [repeat fold_left]. rewrite step_0_0. exact IHk. Qed.

  (* ---- the state stays below 2^W *)
  Hypothesis gens_small : Forall (fun g => snd g < 2 ^ W) gens.

  Lemma gs_lt_gen g t : Forall (fun x => snd x < 2 ^ W) g -> gs g t < 2 ^ W.
  Proof.
    induction 1 as [|x r Hx Hr IH]; cbn [gs]; [apply N.neq_0_lt_0, N.pow_nonzero; discriminate|].
    apply lxor_lt; [|exact IH]. destruct (N.testbit t (fst x)); cbn [sel]; [assumption|].
    apply N.neq_0_lt_0, N.pow_nonzero; discriminate.
  Qed.

  Lemma gs_lt t : gs gens t < 2 ^ W.
  Proof. apply gs_lt_gen, gens_small. Qed.

  Lemma step_lt c v : v < 2 ^ W -> step c v < 2 ^ W.
  Proof.
    intros Hv. rewrite step_eq. apply lxor_lt; [apply lxor_lt; [|assumption]|apply gs_lt].
    apply shiftl_lt, land_ones_lt.
  Qed.

  Lemma pm_lt l : forall c, c < 2 ^ W -> Forall (fun v => v < 2 ^ W) l -> pm c l < 2 ^ W.
  Proof.
    induction l as [|v l IH]; intros c Hc Hl; [assumption|].
    unfold pm_from. cbn [fold_left]. inversion Hl; subst. apply IH; [apply step_lt|]; assumption.
  Qed.

  (* ---- short words from a small state: the polynomial division has not started yet *)
  Lemma step_small c v : c < 2 ^ shift -> step c v = N.lxor (N.shiftl c sb) v.
  Proof.
    intros Hc. rewrite step_eq, (shiftr_small c shift Hc), gs_0, N.lxor_0_r, land_ones_small by assumption.
    reflexivity.
  Qed.

  Variable cklen : nat.
  Hypothesis cklen_pos : (1 <= cklen)%nat.
  Hypothesis shift_eq : shift = sb * (N.of_nat cklen - 1).

  Notation small := (fun v => v < 2 ^ sb).

  (* a word of at most cklen symbols run from state 0 reproduces itself: zero only if all symbols are zero *)
  Lemma short_word_zero l : forall c j, c < 2 ^ (sb * N.of_nat j) -> (j + length l <= cklen)%nat ->
    Forall small l -> pm c l = 0 -> c = 0 /\ Forall (fun x => x = 0) l.
  Proof.
    induction l as [|d l IH]; intros c j Hc Hj Hl Z; [auto|].
    apply Forall_cons_iff in Hl. destruct Hl as [Hd Hl']. simpl length in Hj.
    assert (Hcs : c < 2 ^ shift).
    { eapply lt_pow2_mono; [exact Hc|]. rewrite shift_eq. apply N.mul_le_mono_l. lia. }
    unfold pm_from in Z. cbn [fold_left] in Z. rewrite step_small in Z by assumption.
    destruct (IH (N.lxor (N.shiftl c sb) d) (S j)) as [Z1 Z2]; try assumption; [|simpl; lia|].
    - rewrite Nnat.Nat2N.inj_succ, N.mul_succ_r. apply lxor_lt; [apply shiftl_lt; assumption|].
      eapply lt_pow2_mono; [exact Hd|lia].
    - apply N.lxor_eq in Z1. destruct (N.eq_dec c 0) as [->|Hn].
      + rewrite N.shiftl_0_l in Z1. subst d. auto.
      + exfalso. rewrite N.shiftl_mul_pow2 in Z1. assert (2 ^ sb <= c * 2 ^ sb) by nia. lia.
  Qed.

  (* checksum symbols of X, most significant first *)
  Notation digits := (cs_digits sb (N.of_nat cklen - 1) (N.ones sb) cklen).

  Lemma digits_length X : length (digits X) = cklen.
  Proof. unfold cs_digits. rewrite map_length, seq_length. reflexivity. Qed.

  Lemma digits_small X : Forall small (digits X).
  Proof.
    unfold cs_digits. apply Forall_forall. intros x Hx. apply in_map_iff in Hx. destruct Hx as (i & <- & _).
    apply land_ones_lt.
  Qed.

  Lemma pm_digits_prefix X : X < 2 ^ W -> forall k, (k <= cklen)%nat ->
    pm 0 (map (fun i => N.land (N.shiftr X (sb * (N.of_nat cklen - 1 - N.of_nat i))) (N.ones sb)) (seq 0 k))
    = N.shiftr X (sb * (N.of_nat cklen - N.of_nat k)).
  Proof.
    intros HX. induction k as [|k IH]; intros Hk.
    - cbn [seq map]. unfold pm_from. cbn [fold_left]. symmetry. apply shiftr_small.
      eapply lt_pow2_mono; [exact HX|]. rewrite shift_eq. nia.
    - rewrite seq_S, map_app, pm_app, IH by lia. cbn [map]. unfold pm_from. cbn [fold_left plus].
      set (Y := N.shiftr X (sb * (N.of_nat cklen - 1 - N.of_nat k))).
      assert (E1 : N.shiftr X (sb * (N.of_nat cklen - N.of_nat k)) = N.shiftr Y sb).
      { unfold Y. rewrite N.shiftr_shiftr. f_equal. nia. }
      assert (E2 : sb * (N.of_nat cklen - N.of_nat (S k)) = sb * (N.of_nat cklen - 1 - N.of_nat k)) by (f_equal; lia).
      rewrite E1, E2. fold Y. rewrite step_small; [apply split_low_high|].
      rewrite <- E1. apply shiftr_lt. eapply lt_pow2_mono; [exact HX|]. rewrite shift_eq. nia.
  Qed.

  Lemma pm_digits X : X < 2 ^ W -> pm 0 (digits X) = X.
  Proof.
    intros HX. unfold cs_digits. rewrite (pm_digits_prefix X HX cklen (le_n _)).
    rewrite N.sub_diag, N.mul_0_r. apply N.shiftr_0_r.
  Qed.

  (* appending the digits of X instead of cklen zeros xors X into the result *)
  Lemma pm_append_digits c X : X < 2 ^ W ->
    pm c (digits X) = N.lxor (pm c (repeat 0 cklen)) X.
  Proof.
    intros HX. rewrite <- (pm_digits X HX) at 2.
    rewrite <- pm_linear by (rewrite repeat_length, digits_length; reflexivity).
    rewrite N.lxor_0_r, xorl_zeros_l by apply digits_length. reflexivity.
  Qed.

  (* two checksums that give the same final state are equal *)
  Lemma checksum_unique c a b : length a = cklen -> length b = cklen -> Forall small a -> Forall small b ->
    pm c a = pm c b -> a = b.
  Proof.
    intros La Lb Ha Hb E. apply xorl_all_zero; [congruence|].
    assert (Z : pm 0 (xorl a b) = 0).
    { pose proof (pm_linear a b c c ltac:(congruence)) as P. rewrite N.lxor_nilpotent in P.
      rewrite P, E. apply N.lxor_nilpotent. }
    apply (short_word_zero (xorl a b) 0 0%nat) in Z; [tauto| |rewrite xorl_length; lia|apply xorl_small; assumption].
    rewrite N.mul_0_r. reflexivity.
  Qed.

  (* ---- multiplication by x (a zero symbol) is injective on states below 2^W *)
  Hypothesis low_indep : forall t, t < 2 ^ sb -> N.land (gs gens t) (N.ones sb) = 0 -> t = 0.

  Lemma step0_kernel c : c < 2 ^ W -> step c 0 = 0 -> c = 0.
  Proof.
    intros Hc Z. rewrite step_eq, N.lxor_0_r in Z.
    set (top := N.shiftr c shift) in *.
    assert (Ht : top < 2 ^ sb) by (apply shiftr_lt; rewrite N.add_comm; assumption).
    assert (T0 : top = 0).
    { apply low_indep; [assumption|]. apply N.lxor_eq in Z. rewrite <- Z.
      apply N.bits_inj. intro i. rewrite N.land_spec, N.bits_0.
      destruct (N.lt_ge_cases i sb) as [Hi|Hi].
      - rewrite N.shiftl_spec_low by assumption. reflexivity.
      - rewrite N.ones_spec_high by assumption. apply andb_false_r. }
    rewrite T0, gs_0, N.lxor_0_r in Z. apply N.shiftl_eq_0_iff in Z.
    rewrite <- (split_low_high c shift). fold top. rewrite T0, Z, N.shiftl_0_l. reflexivity.
  Qed.

  Lemma step0_inj a b : a < 2 ^ W -> b < 2 ^ W -> step a 0 = step b 0 -> a = b.
  Proof.
    intros Ha Hb E. apply N.lxor_eq. apply step0_kernel; [apply lxor_lt; assumption|].
    rewrite <- (N.lxor_0_r 0) at 1. rewrite step_linear, E. apply N.lxor_nilpotent.
  Qed.
End Poly.

#!/bin/bash
# Build the whole framework from files on disk (offline): Gen from /repo, full .vo build, driver.
V="$(cd "$(dirname "$0")" && pwd)"
cd "$V"
export PYTHONPATH=$V/harness:${VERIF_REPO:-/repo}
export PYTHONHASHSEED=0 PYTHONDONTWRITEBYTECODE=1
/venv/bin/python -W ignore - <<'PY' 2> >(grep -v 'WARNING conda' >&2)
import sys, framework
br = framework.build()
print("setup: build wall %.1fs, failed=%s, translate_error=%s, extract_ok=%s" % (br.wall, list(br.failed), br.translate_error, br.extract_ok))
if br.failed:
    for k, v in br.failed.items():
        print("FAILED", k, v[:500])
sys.exit(0 if (not br.failed and br.extract_ok and not br.translate_error) else 1)
PY
